#!/usr/bin/env python3
"""Regenerates /verif/MANIFEST.json from tools/claims.json (per-property texts).

claims.json: { "Cxx": {"claimed": bool, "level_text": str, "level_note": str,
                        "technique": str, "design_ref": str, "na_reason": str} }
"""
import json, os, sys
root = os.path.dirname(os.path.dirname(os.path.abspath(__file__)))
claims = json.load(open(os.path.join(root, "tools", "claims.json")))
props = [json.loads(l) for l in open(os.path.join(root, "properties.jsonl"))]
BASE = json.load(open("/root/.vp/BASELINE.json"))["cmd"] if os.path.exists("/root/.vp/BASELINE.json") else ""
checks, na = [], []
for p in props:
    pid = p["id"]
    c = claims.get(pid, {})
    if c.get("claimed"):
        checks.append({
            "property_id": pid,
            "quick_cmd": f"./bin/raftlint -property {pid} -tier quick",
            "thorough_cmd": f"./bin/raftlint -property {pid} -tier thorough",
            "evidence_file": f"/verif/evidence/{pid}.json",
            "replay_cmd_template": "./bin/raftlint -explain {path}",
            "engine": "raftlint",
            "level_claimed": {"category": "other", "text": c["level_text"], "design_ref": c.get("design_ref", "DESIGN.md §5 " + pid)},
            "level_note": c["level_note"] + " | " + claims.get("_common_note", ""),
            "technique": c["technique"],
        })
    else:
        na.append({"property_id": pid, "reason": c.get("na_reason", "static obligations for this property are not implemented yet (see DESIGN.md §10 build order); no claim is made")})
m = {
    "version": 1,
    "setup_cmd": "./build.sh",
    "hooks": {
        "guard": "verif",
        "enable": "none needed: the analysis reads /repo's source as data; nothing in /repo is built or instrumented",
        "baseline_off_cmd": BASE,
        "source_commits": [],
        "add_only": True,
    },
    "engines": [{
        "name": "raftlint",
        "path": "/verif/checker",
        "serves_properties": [c["property_id"] for c in checks],
        "kind_free_text": "repo-specific static analyser over go/types + go/ssa + VTA call graph (x/tools v0.50.0, go1.26.8): guarded-store / who-may-call / typestate / provenance / effect obligations generated from the current tree",
    }],
    "checks": checks,
    "not_applicable": na,
    "notes": "All claims are at level 'other': each check decides named structural necessary conditions of its property on every path of the current source (see DESIGN.md §0, §5, §6). The behavioural remainder of each property is listed as not covered in DESIGN.md and is not claimed.",
}
json.dump(m, open(os.path.join(root, "MANIFEST.json"), "w"), indent=1)
print("claimed:", [c["property_id"] for c in checks])
