#!/usr/bin/env python3
"""Run the registered checks against every seeded change (scratch copy of /repo per seed; /repo is not touched).
Prints which properties' checks detect each seed and writes seeded/RESULTS.json."""
import json, os, shutil, subprocess, sys, tempfile, glob
root = os.path.dirname(os.path.dirname(os.path.abspath(__file__)))
claimed = [c["property_id"] for c in json.load(open(os.path.join(root, "MANIFEST.json")))["checks"]]
want = set(sys.argv[1:])
results = {}
for d in sorted(glob.glob(os.path.join(root, "seeded", "C*"))):
    name = os.path.basename(d)
    if want and name not in want: continue
    meta = json.load(open(os.path.join(d, "meta.json")))
    tmp = tempfile.mkdtemp(prefix="seedrun-")
    try:
        dst = os.path.join(tmp, "repo")
        subprocess.run(["rsync", "-a", "--exclude", ".git", "/repo/", dst + "/"], check=True)
        r = subprocess.run(["patch", "-p1", "-s", "-i", os.path.join(d, "patch.diff")], cwd=dst, capture_output=True, text=True)
        if r.returncode != 0:
            print("PATCH-FAIL", name, r.stdout[-200:]); continue
        os.makedirs(os.path.join(tmp, "checker")); shutil.copy(os.path.join(root, "checker", "floors.json"), os.path.join(tmp, "checker"))
        if os.path.exists(os.path.join(root, "known_findings.json")): shutil.copy(os.path.join(root, "known_findings.json"), tmp)
        fired = {}
        rr = subprocess.run([os.path.join(root, "bin", "raftlint"), "-all", "-repo", dst], capture_output=True, text=True)
        cur = None
        for l in rr.stdout.splitlines():
            if l.startswith("FAIL "):
                cur = l.split()[1]; fired[cur] = []
            elif l.startswith("PASS "):
                cur = None
            elif l.startswith("LOAD-FAILED"):
                fired["LOAD"] = [l[:200]]
            elif cur and l.strip():
                fired[cur].append(l.strip()[:200])
        fired = {k: v for k, v in fired.items() if k in claimed or k == "LOAD"}
        own = meta["property"] in fired
        results[name] = {"property": meta["property"], "detected_by_own_property": own, "detected_by": sorted(fired), "first_reports": {k: v[:1] for k, v in fired.items()}}
        print(("DETECT " if fired else "MISSED ") + name, "own" if own else "", sorted(fired))
    finally:
        shutil.rmtree(tmp, ignore_errors=True)
if not want:
    json.dump(results, open(os.path.join(root, "seeded", "RESULTS.json"), "w"), indent=1)
