#!/usr/bin/env python3
"""Run the rules of every claimed property against every seeded change (scratch copy of /repo per seed;
/repo is not touched). Prints which properties' checks detect each seed and writes seeded/RESULTS.json.
usage: run_seeded.py [-j N] [names...]"""
import json, os, shutil, subprocess, sys, tempfile, glob, concurrent.futures as cf
root = os.path.dirname(os.path.dirname(os.path.abspath(__file__)))
claimed = [c["property_id"] for c in json.load(open(os.path.join(root, "MANIFEST.json")))["checks"]]
args = sys.argv[1:]
J = 1
if args and args[0] == "-j":
    J = int(args[1]); args = args[2:]
want = set(args)
BIN = tempfile.mktemp(prefix="raftlint-seeded-")
shutil.copy(os.path.join(root, "bin", "raftlint"), BIN); os.chmod(BIN, 0o755)

def one(d):
    name = os.path.basename(d)
    meta = json.load(open(os.path.join(d, "meta.json")))
    tmp = tempfile.mkdtemp(prefix="seedrun-")
    try:
        dst = os.path.join(tmp, "repo")
        subprocess.run(["rsync", "-a", "--exclude", ".git", "/repo/", dst + "/"], check=True)
        r = subprocess.run(["patch", "-p1", "-s", "-i", os.path.join(d, "patch.diff")], cwd=dst, capture_output=True, text=True)
        if r.returncode != 0:
            return name, None, "PATCH-FAIL " + r.stdout[-200:]
        fired = {}
        rr = subprocess.run([BIN, "-all", "-repo", dst], capture_output=True, text=True, env=dict(os.environ, VERIF_DIR=root))
        cur = None
        for l in rr.stdout.splitlines():
            if l.startswith("FAIL "):
                cur = l.split()[1]; fired[cur] = []
            elif l.startswith("PASS "):
                cur = None
            elif l.startswith("LOAD-FAILED"):
                fired["LOAD"] = [l[:200]]
            elif cur and l.strip():
                fired[cur].append(l.strip()[:200])
        fired = {k: v for k, v in fired.items() if k in claimed or k == "LOAD"}
        own = meta["property"] in fired
        res = {"property": meta["property"], "detected_by_own_property": own, "detected_by": sorted(fired), "first_reports": {k: v[:1] for k, v in fired.items()}}
        return name, res, ("DETECT " if fired else "MISSED ") + name + (" own " if own else " ") + str(sorted(fired))
    finally:
        shutil.rmtree(tmp, ignore_errors=True)

dirs = [d for d in sorted(glob.glob(os.path.join(root, "seeded", "C*"))) if not want or os.path.basename(d) in want]
results = {}
with cf.ThreadPoolExecutor(J) as ex:
    for name, res, line in ex.map(one, dirs):
        print(line); sys.stdout.flush()
        if res is not None:
            results[name] = res
os.remove(BIN)
rp = os.path.join(root, "seeded", "RESULTS.json")
if want and os.path.exists(rp):
    # a partial run updates the stored matrix
    old = json.load(open(rp))
    old.update(results)
    results = old
json.dump(results, open(rp, "w"), indent=1, sort_keys=True)
