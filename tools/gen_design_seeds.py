#!/usr/bin/env python3
"""Regenerates DESIGN.md §12 (seeded changes and which checks catch them) from seeded/*/meta.json and seeded/RESULTS.json."""
import json, os, glob, re
root = os.path.dirname(os.path.dirname(os.path.abspath(__file__)))
res = json.load(open(os.path.join(root, "seeded", "RESULTS.json"))) if os.path.exists(os.path.join(root, "seeded", "RESULTS.json")) else {}
muts = json.load(open(os.path.join(root, "checker", "audit", "mutants.json")))
lines = []
lines.append("## 12. Seeded changes: which checks catch which changes\n")
lines.append("Two kinds of deliberately broken variants of /repo are kept, neither ever committed to /repo:\n")
lines.append("**(a) Independent seeds** (`/verif/seeded/<name>/`). Each was written by a fresh sub-agent that saw only one property's text and its own scratch worktree; it had to compile, pass the whole existing suite and come with a demonstration test that fails with the change and passes without it. I re-confirmed all of that myself in a fresh worktree (`tools/confirm_seed.py`; wall-clock based `node`/`rafttest` tests flake under machine load even on the unmodified tree, so a failing package is re-run alone up to three times) before importing. `tools/run_seeded.py` applies each patch to a scratch copy and runs every registered check; the table is its output on the final checker (`seeded/RESULTS.json`). “own” = the check of the property the seed was written against fires.\n")
lines.append("| seed | property | change (short) | needs to manifest | detected by | own |")
lines.append("|------|----------|----------------|-------------------|-------------|-----|")
for d in sorted(glob.glob(os.path.join(root, "seeded", "C*"))):
    name = os.path.basename(d)
    m = json.load(open(os.path.join(d, "meta.json")))
    r = res.get(name, {})
    summ = re.sub(r"\s+", " ", (m.get("summary") or ""))[:170].replace("|", "/")
    needs = re.sub(r"\s+", " ", (m.get("needs") or ""))[:130].replace("|", "/")
    det = ", ".join(r.get("detected_by", [])) or "—"
    lines.append(f"| {name} | {m.get('property')} | {summ} | {needs} | {det} | {'yes' if r.get('detected_by_own_property') else ('no' if r else '?')} |")
lines.append("")
missed = [n for n, r in res.items() if not r.get("detected_by")]
notown = [n for n, r in res.items() if r.get("detected_by") and not r.get("detected_by_own_property")]
lines.append(f"Seeds detected by at least one check: {sum(1 for r in res.values() if r.get('detected_by'))} of {len(res)}; by the check of their own property: {sum(1 for r in res.values() if r.get('detected_by_own_property'))}. Missed: {', '.join(missed) or 'none'}. Detected only by another property's check: {', '.join(notown) or 'none'}.\n")
lines.append("Checks were strengthened where a seed was missed when it first arrived (all were then re-run on the unchanged tree and on the behaviour-preserving controls): C10-1 → the recorded `pendingConfIndex` must be `lastIndex()+i+1` for the position `i` actually read; C02-2/C04-1 → `hasUnappliedConfChanges` may answer `false` without scanning only under `applied >= committed` (and the campaign gate joined C02/C04); C08-2/C01-1/C03-1/C18-1 → the storage part of `raftLog.slice` must be complete (`len >= cut-lo`) before the unstable part follows (rule C18.V, shared by C01/C03/C08/C16/C18); C06-1 → the routing group joined C06; C09-1 → the snapshot-clear rule joined C09; C19-2 → `maps.Keys/Values/All` are order sources unless consumed by `slices.Sorted*`; C17-2 → `RecentActive = true` only in the `MsgAppResp`/`MsgHeartbeatResp` arms; C15-1/C15-2 → `appliedSnap` reachable from the lower-term arm too, and `raftLog.appliedTo(…, size)` on every path of `raft.appliedTo`; C16-1/C16-2 → exits from `StateSnapshot` only on `MsgSnapStatus`/acknowledging `MsgAppResp`, and the configured inflight limits must reach every `NewInflights`/`MakeProgressTracker`; C20-1 → only entries whose own type is a conf change are neutralised; C14-1/C14-2 → `promotable()` excludes a pending snapshot (D7) and the index passed to `raftLog.appliedTo` is clamped (D8).\n")
lines.append("Second round (`Cxx-3..5`, 58 seeds; the agents were additionally told which functions the first round had used, and asked for different mechanisms): first-time misses and what was added — C07-4 (a restarted learner forgets its vote) → `loadState` restores term, vote and commit on every returning path; C03-3 (`MemoryStorage.ApplySnapshot` keeps the tail) → C18.P; C06-5 (`switchToConfig` commits `trk.Committed()` directly) → C06.X closed set of commit sources; C05-5 (`newStorageAppendMsg` tests the wrong snapshot) → C05.E carried-fields rule; C02-4 (own `MsgVoteResp` passes the term gate) → C07.G term gate; C18-5 (`ApplySnapshot` accepts the same index again) → exact `ErrSnapOutOfDate` boundary; C15-3 (`appliedTo` returns early without releasing the budget) → C15.B; C15-4 (`needStorageAppendMsg` forgets delayed messages) → C15.W/C05.W formula; C16-5 (`checkAndCopy` gives every copy a fresh window) → window creation sites; C20-4 (`Node` reports a handed-over proposal as dropped) → channel hand-off counts in C20.D. Seeds caught only under a neighbouring property led to the shared-group additions listed in §11.\n")
lines.append("**Behaviour-preserving refactorings.** Eight further sub-agents (two rounds of four, each given only a worktree and a list of files) wrote 96 refactorings that change no behaviour (helper extraction, inverted conditions, switch/if conversions, loop forms, hoisted getters, builtin `min`/`max` vs compare-select, merged or split functions), each passing the whole suite. `tools/run_patches.py` runs every property's rules on each. False alarms found and repaired in the first round (12 of 48): nil test of an extracted decoding helper; response-type selection as default-plus-override; forwarding helper; `Match` chosen before the `Progress` literal; hand-written `min` for the heartbeat commit; saturating subtract via `min`; `stepsOnAdvance` collection in a helper; range guard as a named boolean; `nextCommittedEnts` guarded by `hasNextCommittedEnts`; `truncateAndAppend` arms in helpers; `Restore` closures from a helper; `allowUnstable` passed through. Second round (9 of 48): a helper returning the delayed-message queue; `recvAck` with a hand-written `max`; the snapshot's `entryID` built once and its `.index` reused; one snapshot reply whose index is chosen in the two branches; the clone loop stamping a local element before storing it; `BecomeProbe` factored out of both `MsgSnapStatus` outcomes; the three leader-message arms of `stepFollower` merged into one case; a `sendReadIndexResponse` wrapper; `symdiff` as two calls of a counting helper. See §11 for the engine changes each one led to. All 96 are kept in `/verif/refactorings/` and must stay `ALL-PASS` under `tools/run_patches.py`.\n")
lines.append("**(b) Neutralisers** (`checker/audit/mutants.json`, written by me while building each rule, run by the thorough tier as in-memory overlays and by `tools/mutate.py` on scratch copies): " + str(len(muts)) + " textual edits, each removing or weakening exactly one guarded fact. `expect` lists the properties whose check must fire; `silent` lists properties that must stay quiet on a behaviour-preserving variant.\n")
lines.append("| neutraliser | file | must be detected by | must stay silent for |")
lines.append("|-------------|------|---------------------|----------------------|")
for m in muts:
    lines.append(f"| {m['name']} | {m['file']} | {', '.join(m.get('expect', [])) or '—'} | {', '.join(m.get('silent', [])) or '—'} |")
lines.append("")
lines.append("`uncommitted-no-escape` is a *stricter* gate, not a violation of C16, and is kept as a silent control; `checkquorum-no-clear` (only learners are marked inactive) used to be a recorded gap and is now detected by C17.Q3.\n")
block = "\n".join(lines) + "\n"
s = open(os.path.join(root, "DESIGN.md")).read()
if "%%SEC12%%" in s:
    s = s.replace("%%SEC12%%", "<!-- SEC12-BEGIN -->\n" + block + "<!-- SEC12-END -->")
else:
    s = re.sub(r"<!-- SEC12-BEGIN -->.*?<!-- SEC12-END -->", lambda _: "<!-- SEC12-BEGIN -->\n" + block + "<!-- SEC12-END -->", s, flags=re.S)
open(os.path.join(root, "DESIGN.md"), "w").write(s)
print("section 12 written:", len(res), "seeds,", len(muts), "neutralisers")
