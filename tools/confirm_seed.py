#!/usr/bin/env python3
"""Confirm a seeded change independently and run the checks against it.

usage: confirm_seed.py <candidate-dir> <name>
candidate-dir holds patch.diff, demo_test.go, meta.json. Works in a fresh git
worktree of /repo under /tmp, which is removed afterwards. Writes
<candidate-dir>/confirm.json.
"""
import json, os, shutil, subprocess, sys, glob
cand, name = sys.argv[1], sys.argv[2]
root = os.path.dirname(os.path.dirname(os.path.abspath(__file__)))
meta = json.load(open(os.path.join(cand, "meta.json")))
wt = f"/tmp/confirm-{name}"
res = {"name": name, "property": meta.get("property")}
def run(cmd, cwd=None, timeout=1800):
    p = subprocess.run(cmd, shell=True, cwd=cwd, capture_output=True, text=True, timeout=timeout)
    return p.returncode, (p.stdout + p.stderr)[-3000:]
subprocess.run(f"git -C /repo worktree remove --force {wt}", shell=True, capture_output=True)
rc, out = run(f"git -C /repo worktree add -q --detach {wt} HEAD")
try:
    rc, out = run(f"git apply {os.path.join(cand,'patch.diff')}", cwd=wt)
    res["patch_applies"] = rc == 0
    if rc != 0:
        res["error"] = out
    else:
        rc, out = run("go build ./...", cwd=wt); res["build"] = rc == 0
        rc, out = run("go test -count=1 ./... 2>&1 | grep -E '^(--- FAIL|FAIL|ok|panic)'", cwd=wt)
        res["suite_first_run"] = out[-600:]
        ok_suite = ("FAIL" not in out) and ("panic" not in out) and "ok" in out
        if not ok_suite:
            # wall-clock based tests (node_test, rafttest) flake under machine load, also on the
            # unmodified tree: rerun each failing package alone, up to 3 times
            import re
            pk_failed = sorted(set(re.findall(r"^FAIL\t(\S+)", out, re.M)))
            flaky = {}
            ok_suite = bool(pk_failed)
            for pk in pk_failed:
                passed = False
                for attempt in range(3):
                    rc2, out2 = run(f"go test -count=1 {pk} 2>&1 | grep -E '^(--- FAIL|FAIL|ok|panic)'", cwd=wt)
                    if "FAIL" not in out2 and "panic" not in out2 and "ok" in out2:
                        passed = True
                        break
                flaky[pk] = passed
                ok_suite = ok_suite and passed
            res["suite_rerun_of_failed_packages"] = flaky
        res["suite_passes_with_change"] = ok_suite; res["suite_tail"] = out[-600:]
        # checks against the changed tree
        fired = {}
        if not os.environ.get("CONFIRM_CHECKS"):
            raise_skip = True
        else:
            raise_skip = False
        claimed = [c["property_id"] for c in json.load(open(os.path.join(root, "MANIFEST.json")))["checks"]]
        allprops = sorted(set(claimed) | set(sys.argv[3:]))
        vd = f"/tmp/confirm-{name}-verif"; os.makedirs(vd + "/checker", exist_ok=True)
        shutil.copy(os.path.join(root, "checker", "floors.json"), vd + "/checker/floors.json")
        if os.path.exists(os.path.join(root, "known_findings.json")): shutil.copy(os.path.join(root, "known_findings.json"), vd)
        for p in ([] if raise_skip else allprops):
            r = subprocess.run([os.path.join(root, "bin", "raftlint"), "-property", p, "-repo", wt], capture_output=True, text=True, env=dict(os.environ, VERIF_OUT=vd))
            if r.returncode != 0:
                fired[p] = [l.strip()[:220] for l in r.stdout.splitlines() if l.strip().startswith(("VIOLATED", "UNDECIDED", "ENGINE"))][:4]
        shutil.rmtree(vd, ignore_errors=True)
        if not raise_skip:
            res["checks_fired"] = fired
        # demo
        pkgdir = meta["demo"]["package_dir"]
        demo_dst = os.path.join(wt, pkgdir, "zz_seed_demo_test.go")
        shutil.copy(os.path.join(cand, "demo_test.go"), demo_dst)
        runcmd = meta["demo"]["run"]
        rc, out = run(runcmd + " 2>&1 | tail -25", cwd=wt); res["demo_fails_with_change"] = ("FAIL" in out or "panic" in out); res["demo_with_tail"] = out[-500:]
        run(f"git apply -R {os.path.join(cand,'patch.diff')}", cwd=wt)
        rc, out = run(runcmd + " 2>&1 | tail -25", cwd=wt); res["demo_passes_without_change"] = ("FAIL" not in out and "panic" not in out and ("ok" in out)); res["demo_without_tail"] = out[-300:]
finally:
    subprocess.run(f"git -C /repo worktree remove --force {wt}", shell=True, capture_output=True)
json.dump(res, open(os.path.join(cand, "confirm.json"), "w"), indent=1)
print(json.dumps({k: v for k, v in res.items() if not k.endswith("_tail")}, indent=1))
