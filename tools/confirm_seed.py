#!/usr/bin/env python3
"""Confirm a seeded change independently and run the checks against it.

usage: confirm_seed.py <candidate-dir> <name>
candidate-dir holds patch.diff, demo_test.go, meta.json. Works in a fresh git
worktree of /repo under /tmp, which is removed afterwards. Writes
<candidate-dir>/confirm.json.
"""
import json, os, shutil, subprocess, sys, glob
cand, name = sys.argv[1], sys.argv[2]
root = os.path.dirname(os.path.dirname(os.path.abspath(__file__)))
meta = json.load(open(os.path.join(cand, "meta.json")))
wt = f"/tmp/confirm-{name}"
res = {"name": name, "property": meta.get("property")}
def run(cmd, cwd=None, timeout=1800):
    p = subprocess.run(cmd, shell=True, cwd=cwd, capture_output=True, text=True, timeout=timeout)
    return p.returncode, (p.stdout + p.stderr)[-3000:]
subprocess.run(f"git -C /repo worktree remove --force {wt}", shell=True, capture_output=True)
rc, out = run(f"git -C /repo worktree add -q --detach {wt} HEAD")
try:
    rc, out = run(f"git apply {os.path.join(cand,'patch.diff')}", cwd=wt)
    res["patch_applies"] = rc == 0
    if rc != 0:
        res["error"] = out
    else:
        rc, out = run("go build ./...", cwd=wt); res["build"] = rc == 0
        rc, out = run("go test -count=1 ./... 2>&1 | grep -E '^(--- FAIL|FAIL|ok|panic)'", cwd=wt)
        if "FAIL" in out or "panic" in out:
            res["suite_first_run"] = out[-600:]
            # timing-sensitive node tests can flake under load: one retry
            rc, out = run("go test -count=1 ./... 2>&1 | grep -E '^(--- FAIL|FAIL|ok|panic)'", cwd=wt)
        res["suite_passes_with_change"] = ("FAIL" not in out) and ("panic" not in out) and "ok" in out; res["suite_tail"] = out[-600:]
        # checks against the changed tree
        fired = {}
        claimed = [c["property_id"] for c in json.load(open(os.path.join(root, "MANIFEST.json")))["checks"]]
        allprops = sorted(set(claimed) | set(sys.argv[3:]))
        vd = f"/tmp/confirm-{name}-verif"; os.makedirs(vd + "/checker", exist_ok=True)
        shutil.copy(os.path.join(root, "checker", "floors.json"), vd + "/checker/floors.json")
        if os.path.exists(os.path.join(root, "known_findings.json")): shutil.copy(os.path.join(root, "known_findings.json"), vd)
        for p in allprops:
            r = subprocess.run([os.path.join(root, "bin", "raftlint"), "-property", p, "-repo", wt], capture_output=True, text=True, env=dict(os.environ, VERIF_DIR=vd))
            if r.returncode != 0:
                fired[p] = [l.strip()[:220] for l in r.stdout.splitlines() if l.strip().startswith(("VIOLATED", "UNDECIDED", "ENGINE"))][:4]
        shutil.rmtree(vd, ignore_errors=True)
        res["checks_fired"] = fired
        # demo
        pkgdir = meta["demo"]["package_dir"]
        demo_dst = os.path.join(wt, pkgdir, "zz_seed_demo_test.go")
        shutil.copy(os.path.join(cand, "demo_test.go"), demo_dst)
        runcmd = meta["demo"]["run"]
        rc, out = run(runcmd + " 2>&1 | tail -25", cwd=wt); res["demo_fails_with_change"] = ("FAIL" in out or "panic" in out); res["demo_with_tail"] = out[-500:]
        run(f"git apply -R {os.path.join(cand,'patch.diff')}", cwd=wt)
        rc, out = run(runcmd + " 2>&1 | tail -25", cwd=wt); res["demo_passes_without_change"] = ("FAIL" not in out and "panic" not in out and ("ok" in out)); res["demo_without_tail"] = out[-300:]
finally:
    subprocess.run(f"git -C /repo worktree remove --force {wt}", shell=True, capture_output=True)
json.dump(res, open(os.path.join(cand, "confirm.json"), "w"), indent=1)
print(json.dumps({k: v for k, v in res.items() if not k.endswith("_tail")}, indent=1))
