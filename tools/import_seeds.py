#!/usr/bin/env python3
"""Import independently confirmed seeded changes from /tmp/seed-*/k into /verif/seeded/<name>/."""
import json, os, shutil, glob
root = os.path.dirname(os.path.dirname(os.path.abspath(__file__)))
for conf in sorted(glob.glob("/tmp/seed-C*/[0-9]/confirm.json") + glob.glob("/tmp/seed2-C*/[0-9]/confirm.json") + glob.glob("/tmp/seed3-C*/[0-9]/confirm.json")):
    d = os.path.dirname(conf)
    r = json.load(open(conf))
    ok = all(r.get(k) for k in ("patch_applies", "build", "suite_passes_with_change", "demo_fails_with_change", "demo_passes_without_change"))
    name = r["name"]
    if not ok:
        print("SKIP", name, {k: r.get(k) for k in ("build", "suite_passes_with_change", "demo_fails_with_change", "demo_passes_without_change")})
        continue
    dst = os.path.join(root, "seeded", name)
    os.makedirs(dst, exist_ok=True)
    shutil.copy(os.path.join(d, "patch.diff"), dst)
    shutil.copy(os.path.join(d, "demo_test.go"), os.path.join(dst, "demo_test.go.txt"))
    meta = json.load(open(os.path.join(d, "meta.json")))
    out = {
        "property": meta.get("property"),
        "summary": meta.get("summary"),
        "needs": meta.get("needs"),
        "demo": meta.get("demo"),
        "origin": "written by an independent sub-agent that saw only the property text and a scratch worktree",
        "confirmed_by_me": {
            "how": "tools/confirm_seed.py in a fresh git worktree of /repo: git apply patch.diff; go build ./...; go test -count=1 ./... (one retry for timing flakes); demo test placed as zz_seed_demo_test.go in demo.package_dir and run with demo.run with the patch applied (must fail) and after git apply -R (must pass); worktree removed afterwards",
            "build": r["build"], "suite_passes_with_change": r["suite_passes_with_change"],
            "demo_fails_with_change": r["demo_fails_with_change"], "demo_passes_without_change": r["demo_passes_without_change"],
        },
        "detection": "see seeded/RESULTS.json (tools/run_seeded.py runs every registered check against this change)",
    }
    json.dump(out, open(os.path.join(dst, "meta.json"), "w"), indent=1)
    print("OK  ", name)
