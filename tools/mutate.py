#!/usr/bin/env python3
"""Checker sensitivity harness (development aid; not a registered check).

For each mutant in tools/mutants.json -- {name, file, find, replace, expect:[props], note} --
copy /repo to a scratch dir, apply the textual edit (exactly one occurrence
required), and run raftlint -repo <copy> for the expected properties. A mutant
is DETECTED if at least one expected property exits 1 with a VIOLATION line that
is not an engine load failure.
"""
import json, os, shutil, subprocess, sys, tempfile
root = os.path.dirname(os.path.dirname(os.path.abspath(__file__)))
PRE = json.load(open(os.path.join(root, "checker", "audit", "pre.json")))
def apply_pre(m, new):
    p = PRE.get(m.get("pre") or "")
    if not p: return new
    if p["kind"] == "append": return new + p["text"]
    if p["kind"] == "replace": 
        assert new.count(p["find"]) == 1, (m["name"], "pre pattern")
        return new.replace(p["find"], p["replace"])
    return new
muts = json.load(open(os.path.join(root, "checker", "audit", "mutants.json")))
want = set(sys.argv[1:])
allprops = "--all" in want
want.discard("--all")
import concurrent.futures as cf
J = 1
if "-j" in sys.argv:
    k = sys.argv.index("-j"); J = int(sys.argv[k+1]); del sys.argv[k:k+2]
    want = set(a for a in sys.argv[1:] if a != "--all")
BIN = tempfile.mktemp(prefix="raftlint-mut-")
shutil.copy(os.path.join(root, "bin", "raftlint"), BIN); os.chmod(BIN, 0o755)
os.environ["VERIF_DIR"] = root
def one(m):
    ok = True
    olines = []
    def out(x): olines.append(x)
    d = tempfile.mkdtemp(prefix="raftmut-")
    try:
        dst = os.path.join(d, "repo")
        subprocess.run(["rsync", "-a", "--exclude", ".git", "/repo/", dst + "/"], check=True)
        path = os.path.join(dst, m["file"])
        src = open(path).read()
        if src.count(m["find"]) != 1:
            out(f"SKIP   {m['name']}: pattern occurs {src.count(m['find'])} times"); return False, olines
        new = src.replace(m["find"], m["replace"])
        new = apply_pre(m, new)
        open(path, "w").write(new)
        props = m["expect"]
        detected, outs = [], []
        noisy = []
        for p in m.get("silent", []):
            env = dict(os.environ, VERIF_OUT=d)
            os.makedirs(os.path.join(d, "checker"), exist_ok=True)
            shutil.copy(os.path.join(root, "checker", "floors.json"), os.path.join(d, "checker", "floors.json"))
            r = subprocess.run([BIN, "-property", p, "-repo", dst], capture_output=True, text=True, env=env)
            if r.returncode != 0:
                noisy.append(p)
                lines = [l for l in r.stdout.splitlines() if l.strip().startswith(("VIOLATED", "UNDECIDED", "ENGINE"))]
                outs.append(f"{p}: FALSE ALARM " + " || ".join(l.strip()[:200] for l in lines[:3]))
        if m.get("silent"):
            out(("NOISY  " if noisy else "QUIET  ") + m["name"] + ": " + " ;; ".join(outs))
            if noisy: ok = False
            if not props: return ok, olines
        for p in props:
            env = dict(os.environ, VERIF_OUT=d)
            os.makedirs(os.path.join(d, "checker"), exist_ok=True)
            shutil.copy(os.path.join(root, "checker", "floors.json"), os.path.join(d, "checker", "floors.json"))
            if os.path.exists(os.path.join(root, "known_findings.json")):
                shutil.copy(os.path.join(root, "known_findings.json"), d)
            r = subprocess.run([BIN, "-property", p, "-repo", dst], capture_output=True, text=True, env=env)
            if "load failed" in r.stdout:
                outs.append(f"{p}: DOES NOT COMPILE: " + r.stdout[:300]); continue
            if r.returncode == 1 and "VIOLATION property=" + p in r.stdout:
                detected.append(p)
                lines = [l for l in r.stdout.splitlines() if l.strip().startswith(("VIOLATED", "UNDECIDED", "ENGINE"))]
                outs.append(f"{p}: " + " || ".join(l.strip()[:160] for l in lines[:3]))
            else:
                outs.append(f"{p}: silent")
        status = "DETECT" if detected else "MISSED"
        if not detected: ok = False
        out(f"{status} {m['name']}: " + " ;; ".join(outs))
    finally:
        shutil.rmtree(d, ignore_errors=True)
    return ok, olines
sel = [m for m in muts if not want or m["name"] in want]
allok = True
with cf.ThreadPoolExecutor(J) as ex:
    for ok1, lines in ex.map(one, sel):
        for l in lines: print(l)
        sys.stdout.flush()
        allok = allok and ok1
os.remove(BIN)
sys.exit(0 if allok else 1)
