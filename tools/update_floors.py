#!/usr/bin/env python3
"""Freeze per-rule instance floors from the evidence of the current (reviewed) tree.

A floor is a vacuity guard: every rule that produced instances on the reviewed tree must keep
producing at least one (a rule that silently matches nothing would pass forever). Counts that
are semantically meaningful (exactly one install site, exactly two raft-made entries, ...) are
explicit obligations of the rules themselves, not floors, so that merging two returns or
extracting a helper does not raise an alarm."""
import json, glob, os
root = os.path.dirname(os.path.dirname(os.path.abspath(__file__)))
floors = {}
for f in sorted(glob.glob(os.path.join(root, "evidence", "C*.json"))):
    e = json.load(open(f))
    floors[e["property_id"]] = {k: 1 for k, v in sorted(e["coverage"]["rule_instances"].items()) if v >= 1}
json.dump(floors, open(os.path.join(root, "checker", "floors.json"), "w"), indent=1, sort_keys=True)
print({k: len(v) for k, v in floors.items()})
