#!/usr/bin/env python3
"""Freeze per-rule instance floors from the evidence of the current (reviewed) tree.
Run only after reading the obligation lists; floors are lower bounds, new code may add instances."""
import json, glob, os
root = os.path.dirname(os.path.dirname(os.path.abspath(__file__)))
floors = {}
for f in sorted(glob.glob(os.path.join(root, "evidence", "C*.json"))):
    e = json.load(open(f))
    floors[e["property_id"]] = dict(sorted(e["coverage"]["rule_instances"].items()))
json.dump(floors, open(os.path.join(root, "checker", "floors.json"), "w"), indent=1, sort_keys=True)
print({k: sum(v.values()) for k, v in floors.items()})
