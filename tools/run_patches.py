#!/usr/bin/env python3
"""Development aid: apply each <dir>/patch.diff to a scratch copy of /repo and run every property's rules on it
(raftlint -all). Used for behaviour-preserving refactorings (expected: all PASS) and for seeded changes.
usage: run_patches.py [-j N] dir..."""
import os, shutil, subprocess, sys, tempfile, concurrent.futures as cf
root = os.path.dirname(os.path.dirname(os.path.abspath(__file__)))
args = sys.argv[1:]
j = 3
if args and args[0] == "-j":
    j = int(args[1]); args = args[2:]
BIN = tempfile.mktemp(prefix="raftlint-batch-")
shutil.copy(os.path.join(root, "bin", "raftlint"), BIN)  # rebuilds during a batch must not change the verdicts
os.chmod(BIN, 0o755)
def one(d):
    d = os.path.abspath(d)
    tmp = tempfile.mkdtemp(prefix="patchrun-")
    try:
        dst = os.path.join(tmp, "repo")
        subprocess.run(["rsync", "-a", "--exclude", ".git", "/repo/", dst + "/"], check=True)
        r = subprocess.run(["patch", "-p1", "-s", "-i", os.path.join(d, "patch.diff")], cwd=dst, capture_output=True, text=True)
        if r.returncode != 0:
            return d, "PATCH-FAIL " + r.stdout[-200:]
        rr = subprocess.run([BIN, "-all", "-repo", dst], capture_output=True, text=True, env=dict(os.environ, VERIF_DIR=root))
        lines = [l for l in rr.stdout.splitlines() if not l.startswith("PASS")]
        return d, "\n".join(lines) if lines else "ALL-PASS"
    finally:
        shutil.rmtree(tmp, ignore_errors=True)
with cf.ThreadPoolExecutor(j) as ex:
    for d, out in ex.map(one, args):
        print("==", d); print(out); sys.stdout.flush()
os.remove(BIN)
