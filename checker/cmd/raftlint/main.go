package main

import (
	"encoding/json"
	"flag"
	"fmt"
	"os"
	"path/filepath"
	"runtime/pprof"
	"sort"
	"strconv"
	"strings"
	"time"
)

// PropertyRule is the obligation generator of one property.
type PropertyRule struct {
	ID      string
	Explain string
	Assume  []string
	Run     func(c *Check)
}

var registry = map[string]*PropertyRule{}

func register(r *PropertyRule) { registry[r.ID] = r }

func verifDir() string {
	if d := os.Getenv("VERIF_DIR"); d != "" {
		return d
	}
	exe, err := os.Executable()
	if err == nil {
		d := filepath.Dir(filepath.Dir(exe))
		if _, err := os.Stat(filepath.Join(d, "properties.jsonl")); err == nil {
			return d
		}
	}
	return "/verif"
}

func main() {
	prop := flag.String("property", "", "property id (C01..C20)")
	tier := flag.String("tier", "quick", "quick|thorough")
	repo := flag.String("repo", "/repo", "repository to analyse")
	dump := flag.String("dump", "", "debug: dump facts of the named function (substring match)")
	list := flag.Bool("list", false, "list properties")
	explain := flag.String("explain", "", "print a violation report")
	variantName := flag.String("variant", "", "internal: run a single variant (default|with_tla|386) and print obligations as JSON")
	cpuprof := flag.String("cpuprofile", "", "debug: write CPU profile")
	all := flag.Bool("all", false, "development: load once, run every property's rules, print one verdict line per property (no evidence written)")
	flag.Parse()
	if *cpuprof != "" {
		f, _ := os.Create(*cpuprof)
		pprof.StartCPUProfile(f)
		defer pprof.StopCPUProfile()
	}
	// go/packages looks `go` up through this process's PATH
	os.Setenv("PATH", "/opt/veriftools/go1.26.8/bin:"+os.Getenv("PATH"))
	os.Setenv("GOTOOLCHAIN", "local")
	os.Setenv("GOFLAGS", "-mod=mod")
	os.Setenv("GOPROXY", "off")
	os.Setenv("GOSUMDB", "off")
	os.Unsetenv("GOWORK")

	if *list {
		var ids []string
		for id := range registry {
			ids = append(ids, id)
		}
		sort.Strings(ids)
		for _, id := range ids {
			fmt.Println(id)
		}
		return
	}
	if *explain != "" {
		b, err := os.ReadFile(*explain)
		if err != nil {
			fmt.Fprintln(os.Stderr, err)
			os.Exit(2)
		}
		var v any
		_ = json.Unmarshal(b, &v)
		out, _ := json.MarshalIndent(v, "", "  ")
		fmt.Println(string(out))
		return
	}
	if *dump != "" {
		p, err := Load(*repo, Variant{Name: "default"})
		if err != nil {
			fmt.Fprintln(os.Stderr, err)
			os.Exit(2)
		}
		if strings.HasPrefix(*dump, "bf:") {
			dumpConds(p, strings.TrimPrefix(*dump, "bf:"))
			return
		}
		if strings.HasPrefix(*dump, "eff:") {
			dumpEffects(p, strings.TrimPrefix(*dump, "eff:"))
			return
		}
		dumpFacts(p, *dump)
		return
	}
	if *all {
		os.Exit(runAll(*repo))
	}
	rule := registry[*prop]
	if rule == nil {
		fmt.Fprintf(os.Stderr, "unknown property %q\n", *prop)
		os.Exit(2)
	}
	seed := int64(0)
	if s := os.Getenv("VERIF_SEED"); s != "" {
		seed, _ = strconv.ParseInt(s, 10, 64)
	}
	if t := os.Getenv("VERIF_TIER"); t != "" && (t == "quick" || t == "thorough") && !flagSet("tier") {
		*tier = t
	}
	if *variantName != "" {
		os.Exit(runVariantChild(*repo, rule, *variantName))
	}
	res := &RunResult{Property: rule.ID, Tier: *tier, Seed: seed, Start: time.Now(), Explain: rule.Explain, Assume: append([]string{
		"A-LOGGER: Logger.Panic/Panicf/Fatal/Fatalf do not return (as DefaultLogger's do)",
		"go/types, go/ssa and the VTA call graph of x/tools v0.50.0 under go1.26.8 are trusted; no reflection/unsafe in the analysed packages (rule E0, checked)",
		"integer reasoning treats uint64 as mathematical integers (no wrap-around)",
	}, rule.Assume...)}
	runProperty(*repo, rule, *tier, res)
	outDir := verifDir()
	if d := os.Getenv("VERIF_OUT"); d != "" {
		outDir = d // development harnesses redirect evidence/reports away from /verif
	}
	rc := res.Finish(outDir)
	pprof.StopCPUProfile()
	os.Exit(rc)
}

func flagSet(name string) bool {
	set := false
	flag.Visit(func(f *flag.Flag) {
		if f.Name == name {
			set = true
		}
	})
	return set
}

var variants = map[string]Variant{
	"default":  {Name: "default"},
	"with_tla": {Name: "with_tla", Tags: "with_tla"},
	"386":      {Name: "386", GOARCH: "386"},
}

// runOnProg runs the rule on one loaded program and returns the check.
func runOnProg(p *Prog, rule *PropertyRule) (c *Check, failures []string) {
	c = NewCheck(p, rule.ID)
	defer func() {
		if r := recover(); r != nil {
			failures = append(failures, fmt.Sprintf("analyser panic in %s (%s): %v", rule.ID, p.Variant.Name, r))
		}
	}()
	if fails := ruleE0(p); len(fails) > 0 {
		failures = append(failures, fails...)
	}
	t0 := time.Now()
	rule.Run(c)
	if os.Getenv("RAFTLINT_TIMING") != "" {
		fmt.Fprintf(os.Stderr, "rule.Run %s: %.1fs\n", rule.ID, time.Since(t0).Seconds())
	}
	for _, a := range p.anchor {
		failures = append(failures, "anchor unresolved: "+a)
	}
	return c, failures
}

func runProperty(repo string, rule *PropertyRule, tier string, res *RunResult) {
	p, err := Load(repo, variants["default"])
	if err != nil {
		res.Failures = append(res.Failures, "load failed (default variant): "+err.Error())
		return
	}
	res.Funcs = len(p.RuleFuncs)
	for _, n := range p.CG.Nodes {
		res.Edges += len(n.Out)
	}
	for short, pk := range p.Pkgs {
		res.Packages = append(res.Packages, fmt.Sprintf("%s(%d files)", short, len(pk.Syntax)))
	}
	sort.Strings(res.Packages)
	res.Variants = append(res.Variants, "default")
	c, fails := runOnProg(p, rule)
	res.Obs = append(res.Obs, c.Obs...)
	res.Notes = append(res.Notes, c.Notes...)
	res.Omitted = append(res.Omitted, c.Omitted...)
	res.Failures = append(res.Failures, fails...)
	res.Failures = append(res.Failures, checkFloors(rule.ID, c)...)
	res.Failures = append(res.Failures, checkStaleExceptions(rule.ID, c)...)
	applyKnownFindings(res)
	fx, flog := runFixtures(rule.ID)
	res.Failures = append(res.Failures, fx...)
	res.FixtureLog = flog
	if tier == "thorough" {
		runThorough(repo, rule, res, p)
	}
}

func checkStaleExceptions(prop string, c *Check) []string {
	var out []string
	for _, e := range exceptions {
		applies := false
		for _, pr := range e.Props {
			if pr == prop {
				applies = true
			}
		}
		if applies && !c.excUsed[exceptionKey(e.Rule, e.Construct, e.Func)] {
			out = append(out, fmt.Sprintf("stale exception: %s | %s | %s matches no obligation", e.Rule, e.Construct, e.Func))
		}
	}
	return out
}

// ---- floors ---------------------------------------------------------------------

func loadFloors() map[string]map[string]int {
	b, err := os.ReadFile(filepath.Join(verifDir(), "checker", "floors.json"))
	if err != nil {
		return nil
	}
	var m map[string]map[string]int
	if json.Unmarshal(b, &m) != nil {
		return nil
	}
	return m
}

func checkFloors(prop string, c *Check) []string {
	floors := loadFloors()
	if floors == nil {
		return []string{"floors.json missing or unreadable"}
	}
	fl, ok := floors[prop]
	if !ok {
		return []string{"no floors recorded for " + prop}
	}
	counts := map[string]int{}
	for _, o := range c.Obs {
		if o.Status != StInfo {
			counts[o.Rule]++
		}
	}
	var out []string
	var rules []string
	for r := range fl {
		rules = append(rules, r)
	}
	sort.Strings(rules)
	for _, r := range rules {
		if counts[r] < fl[r] {
			out = append(out, fmt.Sprintf("rule %s lost its instances: %d < floor %d", r, counts[r], fl[r]))
		}
	}
	return out
}

// ---- known findings ---------------------------------------------------------------

type KnownFinding struct {
	Property  string `json:"property"`
	Rule      string `json:"rule"`
	Construct string `json:"construct"`
	Func      string `json:"func"`
	What      string `json:"what"`
}

type KnownFile struct {
	Findings []KnownFinding `json:"findings"`
	Fixed    []string       `json:"fixed"`
}

func applyKnownFindings(res *RunResult) {
	b, err := os.ReadFile(filepath.Join(verifDir(), "known_findings.json"))
	if err != nil {
		return
	}
	var kf KnownFile
	if json.Unmarshal(b, &kf) != nil {
		res.Failures = append(res.Failures, "known_findings.json unreadable")
		return
	}
	for _, k := range kf.Findings {
		if k.Property != res.Property {
			continue
		}
		for _, o := range res.Obs {
			if (o.Status == StViolated || o.Status == StUndecided) && o.Rule == k.Rule && o.Construct == k.Construct && o.Func == k.Func {
				o.Status = StKnown
				res.Known = append(res.Known, fmt.Sprintf("%s | %s | %s: %s", k.Rule, k.Construct, k.Func, k.What))
			}
		}
	}
}

func trimList(ss []string, n int) string {
	if len(ss) > n {
		return strings.Join(ss[:n], "; ") + fmt.Sprintf("; ... (%d more)", len(ss)-n)
	}
	return strings.Join(ss, "; ")
}

// runAll is the development mode behind -all: one load, every property, no evidence files.
func runAll(repo string) int {
	p, err := Load(repo, variants["default"])
	if err != nil {
		fmt.Println("LOAD-FAILED", err)
		return 2
	}
	var ids []string
	for id := range registry {
		ids = append(ids, id)
	}
	sort.Strings(ids)
	rc := 0
	for _, id := range ids {
		rule := registry[id]
		c, fails := runOnProg(p, rule)
		p.anchor = nil
		fails = append(fails, checkFloors(id, c)...)
		fails = append(fails, checkStaleExceptions(id, c)...)
		var lines []string
		for _, fl := range fails {
			lines = append(lines, "ENGINE: "+fl)
		}
		for _, o := range c.Obs {
			if o.Status == StViolated || o.Status == StUndecided {
				lines = append(lines, fmt.Sprintf("%s: [%s] %s in %s at %s", strings.ToUpper(o.Status), o.Rule, o.Construct, o.Func, o.Site))
			}
		}
		if len(lines) == 0 {
			fmt.Printf("PASS %s\n", id)
			continue
		}
		rc = 1
		fmt.Printf("FAIL %s\n", id)
		for _, l := range lines {
			fmt.Printf("  %s\n", l)
		}
	}
	return rc
}
