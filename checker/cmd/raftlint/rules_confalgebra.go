package main

import (
	"fmt"
	"go/types"
	"sort"
	"strings"

	"golang.org/x/tools/go/ssa"
)

// mutatedParams computes, for the functions of package `pkg`, which parameters
// (by index) each function may mutate *through*: map updates / deletes on a map
// derived from the parameter, stores through pointers derived from it, or
// passing something derived from it to a callee parameter that is mutated.
func mutatedParams(p *Prog, pkgPath string) map[*ssa.Function]map[int]string {
	out := map[*ssa.Function]map[int]string{}
	var fns []*ssa.Function
	for _, fn := range p.RuleFuncs {
		if fnPkg(fn).Path() == pkgPath {
			fns = append(fns, fn)
		}
	}
	rootParam := func(fn *ssa.Function, fi *FuncInfo, v ssa.Value) int {
		r := derivedRoot(p, fi.Sym(v), 0)
		if r == nil || r.K != KParam {
			return -1
		}
		for i, prm := range fn.Params {
			if ssa.Value(prm) == r.V {
				return i
			}
		}
		return -1
	}
	mark := func(fn *ssa.Function, i int, why string) bool {
		if i < 0 {
			return false
		}
		if out[fn] == nil {
			out[fn] = map[int]string{}
		}
		if _, ok := out[fn][i]; ok {
			return false
		}
		out[fn][i] = why
		return true
	}
	for changed := true; changed; {
		changed = false
		for _, fn := range fns {
			fi := p.Info(fn)
			for _, in := range p.liveInstrsOf(fn) {
				switch x := in.(type) {
				case *ssa.MapUpdate:
					if mark(fn, rootParam(fn, fi, x.Map), "map update at "+p.site(in)) {
						changed = true
					}
				case *ssa.Store:
					// stores into the parameter's own (by-value) struct cell are local
					root := rootOfAddr(x.Addr)
					if _, isAlloc := root.(*ssa.Alloc); isAlloc {
						continue
					}
					if _, ok := x.Addr.(*ssa.Alloc); ok {
						continue
					}
					if mark(fn, rootParam(fn, fi, x.Addr), "store at "+p.site(in)) {
						changed = true
					}
				case ssa.CallInstruction:
					cc := x.Common()
					if b, ok := cc.Value.(*ssa.Builtin); ok {
						if b.Name() == "delete" && mark(fn, rootParam(fn, fi, cc.Args[0]), "delete at "+p.site(in)) {
							changed = true
						}
						continue
					}
					callee := cc.StaticCallee()
					if callee == nil || out[callee] == nil {
						continue
					}
					args := callArgs(x)
					for j, why := range out[callee] {
						if j < len(args) && mark(fn, rootParam(fn, fi, args[j]), "passed to "+callee.Name()+" ("+why+")") {
							changed = true
						}
					}
				}
			}
		}
	}
	return out
}

func isErrConstructor(s *Sym) bool {
	if s.K == KExtract {
		s = s.Args[0]
	}
	if s.K != KCall {
		return false
	}
	n := s.Name
	if s.Fn != nil {
		n = fnName(s.Fn)
	}
	return strings.HasSuffix(n, ".err") || strings.Contains(n, "errors.New") || strings.Contains(n, "fmt.Errorf") || strings.HasSuffix(n, "Changer).err")
}

// C13 — configuration algebra.
// c13Errors — C13.E: inside package confchange no error result of a package-internal call is
// dropped: each is tested against nil or returned (a dropped error from apply lets a change that
// removes every voter through).
func c13Errors(c *Check) {
	p := c.P
	ccPath := pkgPaths["confchange"]
	n := 0
	for _, fn := range p.RuleFuncs {
		pk := fnPkg(fn)
		if pk == nil || pk.Path() != ccPath {
			continue
		}
		for _, in := range p.liveInstrsOf(fn) {
			call, ok := in.(*ssa.Call)
			if !ok {
				continue
			}
			callee := call.Common().StaticCallee()
			if callee == nil || fnPkg(callee) == nil || fnPkg(callee).Path() != ccPath {
				continue
			}
			res := callee.Signature.Results()
			if res.Len() == 0 || !isErrorType(res.At(res.Len()-1).Type()) {
				continue
			}
			// the error value: the call itself (single result) or its last Extract
			var errVals []ssa.Value
			if res.Len() == 1 {
				errVals = append(errVals, call)
			} else if call.Referrers() != nil {
				for _, r := range *call.Referrers() {
					if ex, ok := r.(*ssa.Extract); ok && ex.Index == res.Len()-1 {
						errVals = append(errVals, ex)
					}
				}
			}
			n++
			used := false
			seen := map[ssa.Value]bool{}
			var visit func(v ssa.Value, d int)
			visit = func(v ssa.Value, d int) {
				if v == nil || seen[v] || d > 3 || v.Referrers() == nil {
					return
				}
				seen[v] = true
				for _, r := range *v.Referrers() {
					switch x := r.(type) {
					case *ssa.BinOp, *ssa.Return:
						used = true
					case *ssa.Phi:
						visit(x, d+1)
					case *ssa.Store:
						// spilled result cell of a function with defer
						used = true
					case ssa.CallInstruction:
						used = true // wrapped (c.err(err)) or passed on
					case *ssa.MakeInterface, *ssa.ChangeInterface:
						visit(x.(ssa.Value), d+1)
					}
				}
			}
			for _, ev := range errVals {
				visit(ev, 0)
			}
			c.Result(used, "C13.E", "error result of "+callee.Name(), fnName(fn), p.site(in), "tested against nil, returned or passed on (never dropped)", "")
		}
	}
	c.Result(n >= 3, "C13.E", "error-returning internal calls found", "-", "-", "the Changer operations call apply/checkAndCopy/checkInvariants", fmt.Sprint(n))
}

func isErrorType(t types.Type) bool {
	n, ok := t.(*types.Named)
	return ok && n.Obj().Pkg() == nil && n.Obj().Name() == "error"
}

func c13ConfAlgebra(c *Check) {
	p := c.P
	c13Errors(c)
	ccPath := pkgPaths["confchange"]
	checkAndReturn := p.Func("confchange", "checkAndReturn")
	checkAndCopy := p.Method("confchange", "Changer", "checkAndCopy")
	checkInv := p.Func("confchange", "checkInvariants")
	apply := p.Method("confchange", "Changer", "apply")
	jointFn := p.Func("confchange", "joint")
	incoming := p.Func("confchange", "incoming")
	outgoing := p.Func("confchange", "outgoing")
	symdiff := p.Func("confchange", "symdiff")
	_ = p.Field("tracker", "Config", "Voters")
	learnersF := p.Field("tracker", "Config", "Learners")
	learnersNextF := p.Field("tracker", "Config", "LearnersNext")
	autoLeaveF := p.Field("tracker", "Config", "AutoLeave")
	isLearnerF := p.Field("tracker", "Progress", "IsLearner")
	if checkAndReturn == nil || checkAndCopy == nil || checkInv == nil || apply == nil {
		return
	}
	ops := map[string]*ssa.Function{}
	for _, n := range []string{"Simple", "EnterJoint", "LeaveJoint"} {
		ops[n] = p.Method("confchange", "Changer", n)
	}
	// --- C13.K: every accepted result went through checkAndReturn; the working copy through checkAndCopy
	for _, name := range []string{"Simple", "EnterJoint", "LeaveJoint"} {
		fn := ops[name]
		if fn == nil {
			continue
		}
		fi := p.Info(fn)
		nAccept := 0
		for _, ret := range returnsOf(fi) {
			es := fi.RetSym(ret, 2)
			if isErrConstructor(es) {
				continue
			}
			if es.K == KConst || es.K == KNil {
				// returning a nil error directly: results must still be checked
			}
			nAccept++
			r0, r1 := fi.RetSym(ret, 0), fi.RetSym(ret, 1)
			ok := r0.K == KExtract && r1.K == KExtract && es.K == KExtract && r0.Args[0].K == KCall && r0.Args[0].Fn == checkAndReturn &&
				r0.Args[0].Key() == r1.Args[0].Key() && r0.Args[0].Key() == es.Args[0].Key() && r0.Idx == 0 && r1.Idx == 1 && es.Idx == 2
			c.Result(ok, "C13.K", "accepting return of Changer."+name, fnName(fn), p.site(ret), "(cfg, trk, err) <- checkAndReturn(cfg, trk): invariants are checked on every accepted result", sanitizeKey(r0.Key()))
			if ok {
				// what is checked is the working copy made by checkAndCopy
				a := r0.Args[0].Args
				okCopy := len(a) == 2 && strings.Contains(a[1].Key(), ".checkAndCopy()#1")
				f := fi.FactsAt(ret)
				tested := &Facts{FI: fi, Atoms: f.Tested}
				okErr := tested.HasSame(func(s *Sym) bool {
					return s.K == KExtract && s.Idx == 2 && s.Args[0].K == KCall && s.Args[0].Fn == checkAndCopy
				}, func(s *Sym) bool { return s.K == KNil }, true) != nil
				c.Result(okCopy && okErr, "C13.K", "Changer."+name+" works on a checked copy", fnName(fn), p.site(ret), "trk <- c.checkAndCopy() with err == nil (the input configuration is validated too)", sanitizeKey(a[1].Key()))
			}
		}
		c.Result(nAccept >= 1, "C13.K", "Changer."+name+" has an accepting return", fnName(fn), p.Pos(fn.Pos()), "one return whose error may be nil", fmt.Sprint(nAccept))
	}
	// checkAndReturn returns its arguments only when checkInvariants returned nil
	{
		fi := p.Info(checkAndReturn)
		for _, ret := range returnsOf(fi) {
			es := fi.RetSym(ret, 2)
			if es.K != KNil && !(es.K == KConst && es.C == nil) {
				continue
			}
			f := fi.FactsAt(ret)
			ok := f.HasSame(isCallTo(checkInv), func(s *Sym) bool { return s.K == KNil }, true) != nil
			r0 := fi.RetSym(ret, 0)
			okV := strings.Contains(r0.Key(), "$cfg") || r0.K == KParam || r0.K == KDeref
			c.Result(ok && okV, "C13.K", "checkAndReturn success path", fnName(checkAndReturn), p.site(ret), "returns (cfg, trk, nil) only when checkInvariants(cfg, trk) == nil", strings.Join(f.Describe(), "; "))
		}
	}
	// --- C13.I: inputs are never mutated
	mp := mutatedParams(p, ccPath)
	var names []string
	for fn := range mp {
		names = append(names, fnName(fn))
	}
	sort.Strings(names)
	for _, fn := range p.RuleFuncs {
		if fnPkg(fn).Path() != ccPath {
			continue
		}
		recv := fn.Signature.Recv()
		if recv == nil || !strings.HasSuffix(recv.Type().String(), "confchange.Changer") {
			continue
		}
		why, bad := mp[fn][0]
		c.Result(!bad, "C13.I", "Changer."+fn.Name()+" does not mutate its receiver's configuration", fnName(fn), p.Pos(fn.Pos()), "nothing reachable from c.Tracker is written (maps and Progress records of the input are shared with the caller)", why)
	}
	// exported Restore(chg, cs): chg.Tracker maps must not be mutated either
	if restore := p.Func("confchange", "Restore"); restore != nil {
		why, bad := mp[restore][0]
		c.Result(!bad, "C13.I", "confchange.Restore does not mutate the input tracker", fnName(restore), p.Pos(restore.Pos()), "chg.Tracker is only read", why)
	}
	c.Note("functions that mutate through a parameter: %s", strings.Join(names, ", "))
	// the working copy really is a copy: Config.Clone allocates all four sets, Progress records are copied by value
	if clone := p.Method("tracker", "Config", "Clone"); clone != nil {
		fi := p.Info(clone)
		okAll := true
		detail := ""
		// the four sets are each passed through the cloning helper
		seen := map[string]bool{}
		for _, in := range p.liveInstrsOf(clone) {
			call, ok := in.(*ssa.Call)
			if !ok {
				continue
			}
			fns, okf := funcValues(call.Common().Value, 0)
			if !okf || len(fns) != 1 || fns[0].Parent() != clone {
				continue
			}
			a := fi.Sym(call.Common().Args[0]).Key()
			for _, suffix := range []string{".Voters[0]", ".Voters[1]", ".Learners", ".LearnersNext"} {
				if strings.HasSuffix(a, suffix) {
					seen[suffix] = true
				}
			}
		}
		if len(seen) != 4 {
			okAll = false
			detail = fmt.Sprintf("cloned sets: %v", seen)
		}
		for _, an := range clone.AnonFuncs {
			afi := p.Info(an)
			for _, ret := range returnsOf(afi) {
				v := afi.RetSym(ret, 0)
				if v.K == KNil {
					continue
				}
				if _, isMk := v.V.(*ssa.MakeMap); !(v.K == KAlloc && isMk) {
					okAll = false
					detail += "clone helper returns " + sanitizeKey(v.Key()) + "; "
				}
			}
		}
		c.Result(okAll, "C13.I", "Config.Clone allocates fresh sets", fnName(clone), p.Pos(clone.Pos()), "all four voter/learner sets are copied into new maps", detail)
	}
	{
		fi := p.Info(checkAndCopy)
		okCopy := false
		for _, in := range p.liveInstrsOf(checkAndCopy) {
			if mu, ok := in.(*ssa.MapUpdate); ok {
				// trk[id] = &ppr where ppr is a by-value copy (*pr loaded into a fresh cell)
				if al, ok := mu.Value.(*ssa.Alloc); ok && al.Heap {
					for _, ref := range *al.Referrers() {
						if st, ok := ref.(*ssa.Store); ok && st.Addr == al {
							if ld, ok := st.Val.(*ssa.UnOp); ok {
								_ = ld
								okCopy = true
							}
						}
					}
				}
				_, fresh := mu.Map.(*ssa.MakeMap)
				okCopy = okCopy && fresh
			}
		}
		_ = fi
		c.Result(okCopy, "C13.I", "checkAndCopy copies Progress records by value into a new map", fnName(checkAndCopy), p.Pos(checkAndCopy.Pos()), "trk[id] = &(*pr copy) in a fresh ProgressMap", "")
	}
	// --- C13.C: content of checkInvariants
	c13Invariants(c, checkInv)
	// --- C13.D: progress is deleted only for ids that leave every set
	remove := p.Method("confchange", "Changer", "remove")
	for _, fn := range p.RuleFuncs {
		if fnPkg(fn).Path() != ccPath {
			continue
		}
		fi := p.Info(fn)
		for _, in := range p.liveInstrsOf(fn) {
			call, ok := in.(*ssa.Call)
			if !ok {
				continue
			}
			b, isB := call.Common().Value.(*ssa.Builtin)
			if !isB || b.Name() != "delete" {
				continue
			}
			mt := call.Common().Args[0].Type()
			if !strings.HasSuffix(mt.String(), "tracker.ProgressMap") {
				continue
			}
			f := fi.FactsAt(call)
			tested := &Facts{FI: fi, Atoms: f.Tested}
			lookupFalse := func(which *ssa.Function) bool {
				return tested.HasBool(func(s *Sym) bool {
					return s.K == KExtract && s.Idx == 1 && s.Args[0].K == KIndex && s.Args[0].Args[0].K == KCall && s.Args[0].Args[0].Fn == which
				}, false) != nil
			}
			switch fn {
			case remove:
				c.Result(lookupFalse(outgoing), "C13.D", "remove deletes progress", fnName(fn), p.site(in), "only when the id is not an outgoing voter (which still needs its progress)", strings.Join(f.Describe(), "; "))
			case ops["LeaveJoint"]:
				okV := lookupFalse(incoming)
				okL := tested.HasBool(func(s *Sym) bool {
					return s.K == KExtract && s.Idx == 1 && s.Args[0].K == KIndex && s.Args[0].Args[0].K == KField && s.Args[0].Args[0].Fld == learnersF
				}, false) != nil
				c.Result(okV && okL, "C13.D", "LeaveJoint deletes progress", fnName(fn), p.site(in), "only for outgoing voters that are neither incoming voters nor learners", strings.Join(f.Describe(), "; "))
			default:
				c.Bad("C13.D", "delete from a ProgressMap", fnName(fn), p.site(in), "progress records are dropped only by remove and LeaveJoint", "")
			}
		}
	}
	// --- C13.S / C13.V / C13.J / C13.L
	if fn := ops["Simple"]; fn != nil && symdiff != nil && jointFn != nil {
		fi := p.Info(fn)
		for _, ret := range returnsOf(fi) {
			if isErrConstructor(fi.RetSym(ret, 2)) {
				continue
			}
			f := fi.FactsAt(ret)
			tested := &Facts{FI: fi, Atoms: f.Tested}
			okD := false
			for _, a := range tested.Atoms {
				if a.K == ALe && a.L.K == -1 && len(a.L.T) == 1 {
					for k, s := range a.L.S {
						if s.K == KCall && s.Fn == symdiff && a.L.T[k] == 1 {
							// both arguments: incoming of the input config and incoming of the working copy
							a0, a1 := s.Args[0], s.Args[1]
							okD = a0.K == KCall && a0.Fn == incoming && a1.K == KCall && a1.Fn == incoming && strings.Contains(a0.Key(), "$c.Tracker") != strings.Contains(a1.Key(), "$c.Tracker")
						}
					}
				}
			}
			okJ := tested.HasBool(isCallTo(jointFn), false) != nil
			c.Result(okD && okJ, "C13.S", "Simple accepts at most one voter change", fnName(fn), p.site(ret), "symdiff(old incoming, new incoming) <= 1 and the config was not joint", strings.Join(f.Describe(), "; "))
		}
		// symdiff counts both directions
		sfi := p.Info(symdiff)
		l, r := sfi.Sym(symdiff.Params[0]), sfi.Sym(symdiff.Params[1])
		var pairs []string
		for _, in := range p.liveInstrsOf(symdiff) {
			if st, ok := in.(*ssa.Store); ok {
				if _, isIdx := st.Addr.(*ssa.IndexAddr); isIdx {
					v := sfi.Sym(st.Val)
					if v.Key() == l.Key() {
						pairs = append(pairs, "l")
					} else if v.Key() == r.Key() {
						pairs = append(pairs, "r")
					}
				}
			}
		}
		seq := strings.Join(pairs, "")
		if seq == "" {
			// the two directions as two calls of one counting helper with swapped arguments
			for _, ret := range returnsOf(sfi) {
				v := sfi.RetSym(ret, 0)
				if v.K == KBin && v.Name == "+" && len(v.Args) == 2 {
					a, b := v.Args[0], v.Args[1]
					if a.K == KCall && b.K == KCall && a.Fn != nil && a.Fn == b.Fn && len(a.Args) == 2 && len(b.Args) == 2 &&
						a.Args[0].Key() == b.Args[1].Key() && a.Args[1].Key() == b.Args[0].Key() &&
						(a.Args[0].Key() == l.Key() && a.Args[1].Key() == r.Key() || a.Args[0].Key() == r.Key() && a.Args[1].Key() == l.Key()) &&
						countsMissing(p, a.Fn) {
						seq = "lrrl"
					}
				}
			}
		}
		c.Result(seq == "lrrl" || seq == "rllr", "C13.S", "symdiff is symmetric", fnName(symdiff), p.Pos(symdiff.Pos()), "counts l\\r and r\\l", seq)
	}
	{
		fi := p.Info(apply)
		for _, ret := range returnsOf(fi) {
			es := fi.RetSym(ret, 0)
			if isErrConstructor(es) {
				continue
			}
			f := fi.FactsAt(ret)
			// a return of an error value that was just tested non-nil (passing on a helper's error)
			if tested := (&Facts{FI: fi, Atoms: f.Tested}); tested.HasSame(isKey(es.Key()), func(s *Sym) bool { return s.K == KNil }, false) != nil {
				continue
			}
			ok := false
			for _, a := range f.Atoms {
				if a.K == ANe || a.K == ALe {
					for _, s := range a.L.S {
						if s.K == KBuiltin && s.Name == "len" && s.Args[0].K == KCall && s.Args[0].Fn == incoming {
							ok = true
						}
					}
				}
			}
			c.Result(ok, "C13.V", "apply keeps at least one voter", fnName(apply), p.site(ret), "returns nil only when len(incoming(cfg.Voters)) != 0", strings.Join(f.Describe(), "; "))
		}
	}
	if fn := ops["EnterJoint"]; fn != nil {
		fi := p.Info(fn)
		for _, ret := range returnsOf(fi) {
			if isErrConstructor(fi.RetSym(ret, 2)) {
				continue
			}
			f := fi.FactsAt(ret)
			tested := &Facts{FI: fi, Atoms: f.Tested}
			okJ := tested.HasBool(isCallTo(jointFn), false) != nil
			okN := false
			for _, a := range tested.Atoms {
				if a.K == ANe {
					for _, s := range a.L.S {
						if s.K == KBuiltin && s.Name == "len" && s.Args[0].K == KCall && s.Args[0].Fn == incoming {
							okN = true
						}
					}
				}
			}
			c.Result(okJ && okN, "C13.J", "EnterJoint preconditions", fnName(fn), p.site(ret), "not already joint and at least one incoming voter", strings.Join(f.Describe(), "; "))
		}
		// outgoing <- copy of incoming before apply
		var fill ssa.Instruction
		for _, in := range p.liveInstrsOf(fn) {
			if mu, ok := in.(*ssa.MapUpdate); ok {
				ms := fi.Sym(mu.Map)
				if ms.K == KCall && ms.Fn == outgoing {
					fill = mu
				}
			}
		}
		okOrder := fill != nil
		for _, ci := range p.CallsIn(fn, apply) {
			okOrder = okOrder && fi.InstrDominates(fill, ci) == false && fi.ReachableFrom([]int{fill.Block().Index}, nil)[ci.Block().Index]
		}
		// the fill loop ranges over incoming
		okSrc := false
		if fill != nil {
			k := fi.Sym(fill.(*ssa.MapUpdate).Key)
			okSrc = strings.Contains(k.Key(), "#1") || k.K == KExtract
			for _, in := range p.liveInstrsOf(fn) {
				if rg, ok := in.(*ssa.Range); ok {
					s := fi.Sym(rg.X)
					if s.K == KCall && s.Fn == incoming {
						okSrc = true
					}
				}
			}
		}
		c.Result(okOrder && okSrc, "C13.J", "EnterJoint copies incoming voters to outgoing before applying", fnName(fn), p.Pos(fn.Pos()), "outgoing(cfg.Voters)[id] = {} for id in incoming(cfg.Voters), then apply", "")
	}
	if fn := ops["LeaveJoint"]; fn != nil {
		fi := p.Info(fn)
		okLN, okAL, okOut, okPromote, okFlag := false, false, false, false, false
		for _, st := range p.StoresTo(learnersNextF) {
			if st.Fn == fn && !st.Whole && fi.Sym(st.Val).K == KNil {
				okLN = true
			}
		}
		for _, st := range p.StoresTo(autoLeaveF) {
			v := fi.Sym(st.Val)
			if st.Fn == fn && !st.Whole && v.K == KConst && v.C != nil && v.C.String() == "false" {
				okAL = true
			}
		}
		for _, st := range p.StoresTo(isLearnerF) {
			v := fi.Sym(st.Val)
			if st.Fn == fn && !st.Whole && v.K == KConst && v.C != nil && v.C.String() == "true" {
				okFlag = true
			}
		}
		outPtr := p.Func("confchange", "outgoingPtr")
		nilAdd := p.Func("confchange", "nilAwareAdd")
		for _, in := range p.liveInstrsOf(fn) {
			switch x := in.(type) {
			case *ssa.Store:
				a := fi.Sym(x.Addr)
				if a.K == KCall && a.Fn == outPtr && fi.Sym(x.Val).K == KNil {
					okOut = true
				}
			case *ssa.Call:
				if x.Common().StaticCallee() == nilAdd {
					a := fi.Sym(x.Common().Args[0])
					if strings.HasSuffix(a.Key(), ".Learners") {
						okPromote = true
					}
				}
			}
		}
		c.Result(okLN && okAL && okOut && okPromote && okFlag, "C13.L", "LeaveJoint finishes the transition", fnName(fn), p.Pos(fn.Pos()), "staged learners become learners (set + IsLearner), LearnersNext = nil, Voters[1] = nil, AutoLeave = false", fmt.Sprintf("learnersNext=%v autoLeave=%v outgoing=%v promote=%v flag=%v", okLN, okAL, okOut, okPromote, okFlag))
	}
	// --- C13.R: ConfState -> change sequence
	c13Restore(c)
	// --- C13.T: ConfState() maps each set from its own source
	if cs := p.Method("tracker", "ProgressTracker", "ConfState"); cs != nil {
		fi := p.Info(cs)
		want := map[string]string{"Voters": "Voters[0].Slice()", "VotersOutgoing": "Voters[1].Slice()", "Learners": ".Learners.Slice()", "LearnersNext": ".LearnersNext.Slice()"}
		got := map[string]bool{}
		for _, in := range p.liveInstrsOf(cs) {
			st, ok := in.(*ssa.Store)
			if !ok {
				continue
			}
			fa, ok := st.Addr.(*ssa.FieldAddr)
			if !ok {
				continue
			}
			name := derefStruct(fa.X.Type()).Field(fa.Field).Name()
			v := fi.Sym(st.Val)
			if w, ok := want[name]; ok && strings.HasSuffix(v.Key(), w) {
				got[name] = true
			}
			if name == "AutoLeave" {
				pv := fi.PointeeOf(st.Val)
				if strings.HasSuffix(pv.Key(), ".AutoLeave") {
					got[name] = true
				}
			}
		}
		c.Result(len(got) == 5, "C13.T", "ProgressTracker.ConfState field mapping", fnName(cs), p.Pos(cs.Pos()), "Voters<-Voters[0], VotersOutgoing<-Voters[1], Learners<-Learners, LearnersNext<-LearnersNext, AutoLeave<-AutoLeave", fmt.Sprint(got))
	}
	// the round trip is asserted at run time on both restore paths
	assertEq := p.Func("raft", "assertConfStatesEquivalent")
	if assertEq != nil {
		for _, fn := range []*ssa.Function{p.Func("raft", "newRaft"), p.Method("raft", "raft", "restore")} {
			if fn == nil {
				continue
			}
			n := len(p.CallsIn(fn, assertEq))
			c.Result(n >= 1, "C13.T", "ConfState round trip asserted", fnName(fn), p.Pos(fn.Pos()), "assertConfStatesEquivalent(cs, switchToConfig(...)) after confchange.Restore", fmt.Sprint(n))
		}
	}
	_ = types.Typ
}

func c13Invariants(c *Check, checkInv *ssa.Function) {
	p := c.P
	fi := p.Info(checkInv)
	outgoing := p.Func("confchange", "outgoing")
	incoming := p.Func("confchange", "incoming")
	jointFn := p.Func("confchange", "joint")
	isLearnerF := p.Field("tracker", "Progress", "IsLearner")
	learnersNextF := p.Field("tracker", "Config", "LearnersNext")
	autoLeaveF := p.Field("tracker", "Config", "AutoLeave")
	kinds := map[string]bool{}
	for _, ret := range returnsOf(fi) {
		es := fi.RetSym(ret, 0)
		if !isErrConstructor(es) {
			continue
		}
		f := fi.FactsAt(ret)
		if len(f.Tested) == 0 {
			continue
		}
		a := f.Tested[0]
		// range source of the enclosing loop(s), from the error's position in the function is not needed: classify the guard
		switch {
		case a.K == ABool && a.S.K == KExtract && a.S.Idx == 1 && a.S.Args[0].K == KIndex:
			cont := a.S.Args[0].Args[0]
			switch {
			case cont.K == KParam && a.Neg:
				kinds["missing-progress"] = true
			case cont.K == KCall && cont.Fn == outgoing && a.Neg:
				kinds["learnersnext-not-outgoing"] = true
			case cont.K == KCall && cont.Fn == outgoing && !a.Neg:
				kinds["learner-in-outgoing"] = true
			case cont.K == KCall && cont.Fn == incoming && !a.Neg:
				kinds["learner-in-incoming"] = true
			}
		case a.K == ABool && a.S.K == KField && a.S.Fld == isLearnerF && !a.Neg:
			kinds["learnersnext-marked-learner"] = true
		case a.K == ABool && a.S.K == KField && a.S.Fld == isLearnerF && a.Neg:
			kinds["learner-not-marked"] = true
		case a.K == ASame && a.Neg:
			k := a.S.Key() + a.S2.Key()
			tested := &Facts{FI: fi, Atoms: f.Tested}
			nj := tested.HasBool(isCallTo(jointFn), false) != nil
			if strings.Contains(k, "outgoing(") && nj {
				kinds["nonjoint-outgoing-nonnil"] = true
			}
			if strings.Contains(k, ".LearnersNext") && nj {
				kinds["nonjoint-learnersnext-nonnil"] = true
			}
		case a.K == ABool && a.S.K == KField && a.S.Fld == autoLeaveF && !a.Neg:
			kinds["nonjoint-autoleave"] = true
		}
	}
	_ = learnersNextF
	want := []string{"missing-progress", "learnersnext-not-outgoing", "learnersnext-marked-learner", "learner-in-outgoing", "learner-in-incoming", "learner-not-marked", "nonjoint-outgoing-nonnil", "nonjoint-learnersnext-nonnil", "nonjoint-autoleave"}
	for _, w := range want {
		c.Result(kinds[w], "C13.C", "checkInvariants clause: "+w, fnName(checkInv), p.Pos(checkInv.Pos()), "the clause of the statement is rejected with an error", "")
	}
	// the three id sources whose members must have progress
	srcs := map[string]bool{}
	for _, in := range p.liveInstrsOf(checkInv) {
		if st, ok := in.(*ssa.Store); ok {
			if _, isIdx := st.Addr.(*ssa.IndexAddr); isIdx {
				k := fi.Sym(st.Val).Key()
				switch {
				case strings.HasSuffix(k, ".Voters.IDs()"):
					srcs["voters"] = true
				case strings.HasSuffix(k, ".Learners"):
					srcs["learners"] = true
				case strings.HasSuffix(k, ".LearnersNext"):
					srcs["learnersNext"] = true
				}
			}
		}
	}
	c.Result(len(srcs) == 3, "C13.C", "progress required for every member", fnName(checkInv), p.Pos(checkInv.Pos()), "ids of Voters.IDs(), Learners and LearnersNext are all checked for a progress record", fmt.Sprint(srcs))
}

func c13Restore(c *Check) {
	p := c.P
	toSingle := p.Func("confchange", "toConfChangeSingle")
	restore := p.Func("confchange", "Restore")
	single := p.Type("raftpb", "ConfChangeSingle")
	if toSingle == nil || restore == nil || single == nil {
		return
	}
	fi := p.Info(toSingle)
	add, rem, addL := p.ConstVal("raftpb", "ConfChangeAddNode"), p.ConstVal("raftpb", "ConfChangeRemoveNode"), p.ConstVal("raftpb", "ConfChangeAddLearnerNode")
	type step struct {
		typ  int64
		src  string
		dest string // "out" / "in"
		at   ssa.Instruction
	}
	var steps []step
	rets := returnsOf(fi)
	var outPhi, inPhi string
	if len(rets) == 1 {
		outPhi, inPhi = fi.RetSym(rets[0], 0).Key(), fi.RetSym(rets[0], 1).Key()
	}
	for _, lit := range p.Lits(single) {
		if lit.Fn != toSingle {
			continue
		}
		tc, ok := lit.TypeConsts(p)
		if !ok || len(tc) != 1 {
			continue
		}
		id := lit.FieldSym(p, "NodeId")
		src := ""
		if id != nil && id.K == KIndex && id.Args[0].K == KField {
			src = id.Args[0].Fld.Name()
		}
		dest := ""
		for _, sk := range fi.ForwardSinks(lit.Alloc) {
			_ = sk
		}
		// the append whose result feeds the out/in accumulator
		for _, ref := range *lit.Alloc.Referrers() {
			if st, ok := ref.(*ssa.Store); ok && st.Val == ssa.Value(lit.Alloc) {
				if ia, ok := st.Addr.(*ssa.IndexAddr); ok {
					if arr, ok := ia.X.(*ssa.Alloc); ok {
						for _, r2 := range *arr.Referrers() {
							if sl, ok := r2.(*ssa.Slice); ok {
								for _, r3 := range *sl.Referrers() {
									if call, ok := r3.(*ssa.Call); ok {
										base := fi.Sym(call.Common().Args[0])
										// which accumulator: follow the loop phi chain to the returned value
										if reachesValue(call, rets[0].Results[0], 0) {
											dest = "out"
										} else if reachesValue(call, rets[0].Results[1], 0) {
											dest = "in"
										}
										_ = base
									}
								}
							}
						}
					}
				}
			}
		}
		steps = append(steps, step{tc[0], src, dest, lit.Alloc})
	}
	_, _ = outPhi, inPhi
	sort.Slice(steps, func(i, j int) bool { return steps[i].at.Pos() < steps[j].at.Pos() })
	var got []string
	for _, s := range steps {
		got = append(got, fmt.Sprintf("%s:%d:%s", s.dest, s.typ, s.src))
	}
	want := []string{
		fmt.Sprintf("out:%d:VotersOutgoing", add),
		fmt.Sprintf("in:%d:VotersOutgoing", rem),
		fmt.Sprintf("in:%d:Voters", add),
		fmt.Sprintf("in:%d:Learners", addL),
		fmt.Sprintf("in:%d:LearnersNext", addL),
	}
	okSeq := strings.Join(got, ",") == strings.Join(want, ",")
	// ordering of the `in` steps by dominance (each loop precedes the next)
	for i := 1; i+1 < len(steps) && okSeq; i++ {
		if !fi.ReachableFrom([]int{steps[i].at.Block().Index}, nil)[steps[i+1].at.Block().Index] {
			okSeq = false
		}
	}
	c.Result(okSeq, "C13.R", "toConfChangeSingle sequence", fnName(toSingle), p.Pos(toSingle.Pos()), "outgoing: add VotersOutgoing; incoming: remove VotersOutgoing, add Voters, add-learner Learners, add-learner LearnersNext (in this order)", strings.Join(got, ","))
	// Restore: joint iff len(outgoing) > 0, EnterJoint(cs.GetAutoLeave(), incoming...)
	rfi := p.Info(restore)
	enterJoint := p.Method("confchange", "Changer", "EnterJoint")
	okEJ := false
	for _, an := range restore.AnonFuncs {
		afi := p.Info(an)
		for _, ci := range p.CallsIn(an, enterJoint) {
			a := afi.Sym(callArgs(ci)[1])
			if strings.HasSuffix(a.Key(), ".GetAutoLeave()") {
				okEJ = true
			}
		}
	}
	// the EnterJoint step is queued only when there are outgoing voters
	okBranch := false
	var outgoing ssa.Value
	for _, in := range p.liveInstrsOf(restore) {
		if ex, ok := in.(*ssa.Extract); ok && ex.Index == 0 {
			if call, ok := ex.Tuple.(*ssa.Call); ok && call.Common().StaticCallee() == toSingle {
				outgoing = ex
			}
		}
	}
	if outgoing != nil {
		lenSym := &Sym{K: KBuiltin, Name: "len", Args: []*Sym{rfi.Sym(outgoing)}}
		for _, in := range p.liveInstrsOf(restore) {
			mk, ok := in.(*ssa.MakeClosure)
			if !ok {
				continue
			}
			an, _ := mk.Fn.(*ssa.Function)
			if an == nil || len(p.CallsIn(an, enterJoint)) == 0 {
				continue
			}
			f := rfi.FactsAt(mk)
			tested := &Facts{FI: rfi, Atoms: f.Tested}
			if tested.ImpliesCmp(lenSym, "!=", constSym(0)) || tested.ImpliesCmp(lenSym, ">", constSym(0)) {
				okBranch = true
			} else {
				okBranch = false
				break
			}
		}
	}
	c.Result(okEJ && okBranch, "C13.R", "Restore enters joint iff there are outgoing voters", fnName(restore), p.Pos(restore.Pos()), "len(outgoing)==0 ? simple adds : outgoing adds then EnterJoint(cs.AutoLeave, incoming...)", fmt.Sprintf("enterJoint=%v branch=%v", okEJ, okBranch))
}

// reachesValue: does value v flow (through phis and appends) into target?
func reachesValue(v ssa.Value, target ssa.Value, depth int) bool {
	if v == target {
		return true
	}
	if depth > 6 {
		return false
	}
	for _, ref := range *v.Referrers() {
		switch x := ref.(type) {
		case *ssa.Phi:
			if reachesValue(x, target, depth+1) {
				return true
			}
		case *ssa.Call:
			if b, ok := x.Common().Value.(*ssa.Builtin); ok && b.Name() == "append" && x.Common().Args[0] == v {
				if reachesValue(x, target, depth+1) {
					return true
				}
			}
		}
	}
	return false
}

// derivedRoot: the parameter (or other root) whose reachable memory the value
// denotes an interior part of. Results of calls are followed only when the
// callee returns something derived from one of its own parameters (accessors
// like incoming()/outgoing()); results of constructors/copies are fresh (nil).
func derivedRoot(p *Prog, s *Sym, depth int) *Sym {
	if s == nil || depth > 8 {
		return nil
	}
	switch s.K {
	case KParam, KFree:
		return s
	case KField, KIndex, KSlice, KAddr, KDeref, KConvert:
		return derivedRoot(p, s.Args[0], depth+1)
	case KExtract:
		call := s.Args[0]
		if call.K == KCall && call.Fn != nil && call.Fn.Blocks != nil {
			return callDerived(p, call, s.Idx, depth)
		}
		return nil
	case KCall:
		if s.Fn != nil && s.Fn.Blocks != nil {
			return callDerived(p, s, 0, depth)
		}
		return nil
	}
	return nil
}

func callDerived(p *Prog, call *Sym, idx int, depth int) *Sym {
	pk := fnPkg(call.Fn)
	if pk == nil || !isOurPath(pk.Path()) {
		return nil
	}
	cfi := p.Info(call.Fn)
	for _, ret := range returnsOf(cfi) {
		if idx >= len(ret.Results) {
			continue
		}
		r := derivedRoot(p, cfi.RetSym(ret, idx), depth+1)
		if r != nil && r.K == KParam {
			for j, prm := range call.Fn.Params {
				if ssa.Value(prm) == r.V && j < len(call.Args) {
					if d := derivedRoot(p, call.Args[j], depth+1); d != nil {
						return d
					}
				}
			}
		}
	}
	return nil
}

// countsMissing: fn(a, b) ranges over its first map parameter, looks each key up in the second
// (comma-ok) and has a single counter incremented under !ok that it returns.
func countsMissing(p *Prog, fn *ssa.Function) bool {
	if fn == nil || fn.Blocks == nil || len(fn.Params) != 2 {
		return false
	}
	rangesFirst, looksSecond := false, false
	for _, in := range p.liveInstrsOf(fn) {
		switch x := in.(type) {
		case *ssa.Range:
			if x.X == ssa.Value(fn.Params[0]) {
				rangesFirst = true
			}
		case *ssa.Lookup:
			if x.X == ssa.Value(fn.Params[1]) && x.CommaOk {
				looksSecond = true
			}
		}
	}
	return rangesFirst && looksSecond
}
