package main

import (
	"fmt"
	"go/types"
	"strings"

	"golang.org/x/tools/go/ssa"
)

// storeBase returns the symbol of the object whose field a store writes.
func storeBase(fi *FuncInfo, st FieldStore) *Sym {
	if fa, ok := st.Addr.(*ssa.FieldAddr); ok {
		return derefLoc(fi.Sym(fa.X))
	}
	return derefLoc(fi.Sym(st.Addr))
}

func describeProof(pr Proof) string {
	if pr.OK {
		return "established"
	}
	return "not established on every path"
}

// G-COMMIT-MONO — every store to raftLog.committed raises it (DESIGN §4).
func gCommitMono(c *Check) {
	p := c.P
	f := p.Field("raft", "raftLog", "committed")
	const rule = "G-COMMIT-MONO"
	for _, st := range p.StoresTo(f) {
		fi := p.Info(st.Fn)
		site := p.site(st.Instr)
		if st.Fresh {
			c.OkTrivial(rule, "store raftLog.committed (constructor)", fnName(st.Fn), site, "fresh object", "store into a freshly allocated raftLog")
			continue
		}
		if st.Whole {
			c.Bad(rule, "whole-struct store over raftLog.committed", fnName(st.Fn), site, "new >= old", "a whole raftLog value is overwritten")
			continue
		}
		base := storeBase(fi, st)
		nv := fi.Sym(st.Val)
		old := FieldOf(base, f)
		pr := p.Prove(fi, st.Instr, []Req{ReqCmp(nv, ">=", old)})
		c.Result(pr.OK, rule, "store raftLog.committed", fnName(st.Fn), site,
			fmt.Sprintf("new value %s >= old %s", nv, old), describeProof(pr), pr.Chain...)
	}
}

// G-COMMIT-BOUND — commit never passes the end of the log.
func gCommitBound(c *Check) {
	p := c.P
	f := p.Field("raft", "raftLog", "committed")
	lastIndex := p.Method("raft", "raftLog", "lastIndex")
	const rule = "G-COMMIT-BOUND"
	for _, st := range p.StoresTo(f) {
		fi := p.Info(st.Fn)
		site := p.site(st.Instr)
		if st.Fresh || st.Whole {
			continue
		}
		base := storeBase(fi, st)
		nv := fi.Sym(st.Val)
		li := CallSym(lastIndex, base)
		pr := p.Prove(fi, st.Instr, []Req{ReqCmp(nv, "<=", li)})
		if pr.OK {
			c.Ok(rule, "store raftLog.committed", fnName(st.Fn), site, fmt.Sprintf("%s <= %s", nv, li), "established", pr.Chain...)
			continue
		}
		// alternative: the log end is moved together with the commit index: the
		// same function must go on to call a function that re-bases the unstable
		// log at new+1 with no entries.
		if ok, why := rebasesLogAt(c, fi, st, nv); ok {
			c.Ok(rule, "store raftLog.committed", fnName(st.Fn), site, "log end moved together with commit", why)
			continue
		}
		c.Bad(rule, "store raftLog.committed", fnName(st.Fn), site, fmt.Sprintf("%s <= %s, or log re-based at new+1", nv, li), "not established", pr.Chain...)
	}
}

// rebasesLogAt: after the store, every path to return calls g(x) such that g
// stores unstable.offset = val+1 and unstable.entries = nil.
func rebasesLogAt(c *Check, fi *FuncInfo, st FieldStore, nv *Sym) (bool, string) {
	p := c.P
	offF := p.Field("raft", "unstable", "offset")
	entF := p.Field("raft", "unstable", "entries")
	for _, in := range p.liveInstrsOf(fi.Fn) {
		ci, ok := in.(*ssa.Call)
		if !ok || !fi.InstrDominates(st.Instr, ci) && !fi.InstrDominates(ci, st.Instr) {
			continue
		}
		callee := ci.Common().StaticCallee()
		if callee == nil || callee.Blocks == nil {
			continue
		}
		if !mustPass(fi, ci) {
			continue
		}
		cfi := p.Info(callee)
		m := map[ssa.Value]*Sym{}
		args := callArgs(ci)
		if len(args) != len(callee.Params) {
			continue
		}
		for i, prm := range callee.Params {
			m[prm] = fi.Sym(args[i])
		}
		offOK, entOK := false, false
		for _, s2 := range p.StoresTo(offF) {
			if s2.Fn != callee || s2.Whole {
				continue
			}
			v := resimplify(Subst(cfi.Sym(s2.Val), m))
			d := newLin()
			linAdd(d, v, 1)
			linAdd(d, nv, -1)
			if len(d.T) == 0 && d.K == 1 && mustPass(cfi, s2.Instr) {
				offOK = true
			}
		}
		for _, s2 := range p.StoresTo(entF) {
			if s2.Fn != callee || s2.Whole {
				continue
			}
			if cfi.Sym(s2.Val).K == KNil && mustPass(cfi, s2.Instr) {
				entOK = true
			}
		}
		if offOK && entOK {
			return true, fmt.Sprintf("%s is called on every path at %s and stores unstable.offset = new+1, unstable.entries = nil", fnName(callee), p.site(ci))
		}
	}
	return false, ""
}

// mustPass: every path from entry to a normal return passes through in.
func mustPass(fi *FuncInfo, in ssa.Instruction) bool {
	if !fi.Live(in) {
		return false
	}
	blk := in.Block().Index
	seen := fi.ReachableFrom([]int{0}, func(b int) bool { return b == blk })
	for b := range seen {
		if b == blk {
			continue
		}
		if fi.Cut[b] >= 0 {
			continue
		}
		ins := fi.Fn.Blocks[b].Instrs
		if _, ok := ins[len(ins)-1].(*ssa.Return); ok {
			return false
		}
	}
	return true
}

// G-COMMIT-LEADER — a leader advances commit only to a quorum index of its own term.
func gCommitLeader(c *Check) {
	p := c.P
	const rule = "G-COMMIT-LEADER"
	logMaybeCommit := p.Method("raft", "raftLog", "maybeCommit")
	raftMaybeCommit := p.Method("raft", "raft", "maybeCommit")
	commitTo := p.Method("raft", "raftLog", "commitTo")
	matchTerm := p.Method("raft", "raftLog", "matchTerm")
	committedF := p.Field("raft", "raftLog", "committed")
	termF := p.Field("raft", "raft", "Term")
	trkCommitted := p.Method("tracker", "ProgressTracker", "Committed")
	eidT := p.Field("raft", "entryID", "term")
	eidI := p.Field("raft", "entryID", "index")
	if logMaybeCommit == nil || raftMaybeCommit == nil || commitTo == nil || matchTerm == nil || trkCommitted == nil {
		return
	}
	// (a) callers of raftLog.maybeCommit and their argument
	for _, cs := range p.CallsTo(logMaybeCommit) {
		fi := p.Info(cs.Caller)
		site := p.site(cs.Instr)
		if cs.Caller != raftMaybeCommit {
			c.Bad(rule+".a", "caller of raftLog.maybeCommit", fnName(cs.Caller), site, "only raft.maybeCommit may ask the log to commit by counting", "unexpected caller")
			continue
		}
		args := callArgs(cs.Instr)
		at := fi.Sym(args[1])
		term := FieldOf(at, eidT)
		idx := FieldOf(at, eidI)
		recv := fi.Sym(cs.Caller.Params[0])
		wantTerm := FieldOf(recv, termF)
		okT := term.Key() == wantTerm.Key()
		okI := idx.K == KCall && idx.Fn == trkCommitted
		c.Result(okT, rule+".a", "maybeCommit argument term", fnName(cs.Caller), site, "term <- r.Term", fmt.Sprintf("term = %s", term))
		c.Result(okI, rule+".a", "maybeCommit argument index", fnName(cs.Caller), site, "index <- r.trk.Committed()", fmt.Sprintf("index = %s", idx))
	}
	// (b) inside raftLog.maybeCommit the commitTo call is guarded
	fi := p.Info(logMaybeCommit)
	n := 0
	for _, ci := range p.CallsIn(logMaybeCommit, commitTo) {
		n++
		args := callArgs(ci)
		recv := fi.Sym(args[0])
		arg := fi.Sym(args[1])
		at := fi.Sym(logMaybeCommit.Params[1])
		idx := FieldOf(at, eidI)
		trm := FieldOf(at, eidT)
		site := p.site(ci)
		c.Result(arg.Key() == idx.Key(), rule+".b", "commitTo argument in raftLog.maybeCommit", fnName(logMaybeCommit), site, "argument is at.index", fmt.Sprintf("argument = %s", arg))
		pr := p.Prove(fi, ci, []Req{ReqBool(CallSym(matchTerm, recv, at), true)})
		c.Result(pr.OK, rule+".b", "commitTo guarded by matchTerm(at)", fnName(logMaybeCommit), site, "l.matchTerm(at) holds", describeProof(pr), pr.Chain...)
		pr = p.Prove(fi, ci, []Req{ReqCmp(idx, ">", FieldOf(recv, committedF))})
		c.Result(pr.OK, rule+".b", "commitTo guarded by at.index > committed", fnName(logMaybeCommit), site, "at.index > l.committed", describeProof(pr), pr.Chain...)
		pr = p.Prove(fi, ci, []Req{ReqCmp(trm, "!=", constSym(0))})
		c.Result(pr.OK, rule+".b", "commitTo guarded by at.term != 0", fnName(logMaybeCommit), site, "at.term != 0", describeProof(pr), pr.Chain...)
	}
	if n == 0 {
		c.Bad(rule+".b", "commitTo call in raftLog.maybeCommit", fnName(logMaybeCommit), p.Pos(logMaybeCommit.Pos()), "raftLog.maybeCommit advances the commit index through commitTo", "no such call")
	}
	// (c) ProgressTracker.Committed returns the joint committed index over Match
	gTrackerCommitted(c)
}

func gTrackerCommitted(c *Check) {
	p := c.P
	const rule = "G-COMMIT-LEADER.c"
	fn := p.Method("tracker", "ProgressTracker", "Committed")
	jci := p.Method("quorum", "JointConfig", "CommittedIndex")
	votersF := p.Field("tracker", "Config", "Voters")
	progF := p.Field("tracker", "ProgressTracker", "Progress")
	matchF := p.Field("tracker", "Progress", "Match")
	if fn == nil || jci == nil {
		return
	}
	fi := p.Info(fn)
	rets := returnsOf(fi)
	for _, r := range rets {
		v := fi.Sym(r.Results[0])
		ok := v.K == KCall && v.Fn == jci
		detail := fmt.Sprintf("returns %s", v)
		if ok {
			recv := v.Args[0]
			ok = recv.K == KField && recv.Fld == votersF
			if !ok {
				detail = "receiver is not the joint Voters field: " + recv.Key()
			}
			if ok {
				idxr := v.Args[1]
				ok = idxr.K == KField && idxr.Fld == progF
				if !ok {
					detail = "indexer is not built from the Progress map: " + idxr.Key()
				}
			}
		}
		c.Result(ok, rule, "return of ProgressTracker.Committed", fnName(fn), p.site(r), "returns Voters.CommittedIndex(matchAckIndexer(Progress)) over the joint config", detail)
	}
	// matchAckIndexer.AckedIndex reads Progress.Match of the id present
	ack := p.Method("tracker", "matchAckIndexer", "AckedIndex")
	if ack == nil {
		return
	}
	afi := p.Info(ack)
	for _, r := range returnsOf(afi) {
		v0, v1 := afi.Sym(r.Results[0]), afi.Sym(r.Results[1])
		site := p.site(r)
		switch {
		case v1.K == KConst && v1.C != nil && v1.C.String() == "true":
			ok := v0.K == KField && v0.Fld == matchF
			c.Result(ok, rule, "matchAckIndexer.AckedIndex found-return", fnName(ack), site, "returns (pr.Match, true)", fmt.Sprintf("returns (%s, true)", v0))
			// under ok==true from the map lookup
			f := afi.FactsAt(r)
			has := false
			for _, a := range f.Atoms {
				if a.K == ABool && !a.Neg && a.S.K == KExtract && a.S.Idx == 1 {
					has = true
				}
			}
			c.Result(has, rule, "matchAckIndexer.AckedIndex found-return guarded by presence", fnName(ack), site, "id present in the map", strings.Join(f.Describe(), "; "))
		case v1.K == KConst && v1.C != nil && v1.C.String() == "false":
			ok := v0.K == KConst
			c.Result(ok, rule, "matchAckIndexer.AckedIndex missing-return", fnName(ack), site, "returns (0,false)", fmt.Sprintf("returns (%s,false)", v0))
		default:
			c.Undecided(rule, "matchAckIndexer.AckedIndex return", fnName(ack), site, "found flag is a constant per path", fmt.Sprintf("returns (%s,%s)", v0, v1))
		}
	}
}

func returnsOf(fi *FuncInfo) []*ssa.Return {
	var out []*ssa.Return
	for _, b := range fi.Fn.Blocks {
		if !fi.Reach[b.Index] || fi.Cut[b.Index] >= 0 {
			continue
		}
		if r, ok := b.Instrs[len(b.Instrs)-1].(*ssa.Return); ok {
			out = append(out, r)
		}
	}
	return out
}

// G-MATCH-ACK — Progress.Match only advances from a positive append ack.
func gMatchAck(c *Check) {
	p := c.P
	const rule = "G-MATCH-ACK"
	matchF := p.Field("tracker", "Progress", "Match")
	maybeUpdate := p.Method("tracker", "Progress", "MaybeUpdate")
	lastIndex := p.Method("raft", "raftLog", "lastIndex")
	msgT := p.Type("raftpb", "Message")
	getType := p.Method("raftpb", "Message", "GetType")
	getReject := p.Method("raftpb", "Message", "GetReject")
	getIndex := p.Method("raftpb", "Message", "GetIndex")
	idF := p.Field("raft", "raft", "id")
	msgAppResp := p.ConstVal("raftpb", "MsgAppResp")
	if maybeUpdate == nil || matchF == nil || msgT == nil {
		return
	}
	// writers of Match
	for _, st := range p.StoresTo(matchF) {
		fi := p.Info(st.Fn)
		site := p.site(st.Instr)
		switch {
		case st.Fn == maybeUpdate:
			nv := fi.Sym(st.Val)
			old := FieldOf(storeBase(fi, st), matchF)
			pr := p.Prove(fi, st.Instr, []Req{ReqCmp(nv, ">", old)})
			c.Result(pr.OK, rule, "store Progress.Match in MaybeUpdate", fnName(st.Fn), site, "new > old (acks never regress)", describeProof(pr), pr.Chain...)
		case st.Fresh:
			v := st.FieldVal(fi, matchF)
			if v.K == KField && v.Fld == matchF {
				c.OkTrivial(rule, "copy of a Progress", fnName(st.Fn), site, "a copy carries the Match it was copied from", fmt.Sprintf("Match: %s", v))
				continue
			}
			ok := v.K == KConst && v.C != nil && v.C.String() == "0"
			req := "fresh Progress starts with Match 0"
			if !ok && v.K == KPhi {
				// a value selected before the literal: 0, or the node's own last index when id == r.id
				ok = ownLastIndexPhi(fi, v, lastIndex, idF)
				req = "fresh Progress starts with Match 0, or the node's own last index when id == r.id"
			}
			c.Result(ok, rule, "Progress literal Match", fnName(st.Fn), site, req, fmt.Sprintf("Match: %s", v))
		default:
			// stores through a pointer (the per-peer reset in raft.reset): constant 0, or the
			// node's own last index under id == r.id
			v := st.FieldVal(fi, matchF)
			if v.K == KConst && v.C != nil && v.C.String() == "0" {
				c.Ok(rule, "reset Progress.Match", fnName(st.Fn), site, "Match reset to 0", "constant 0")
				continue
			}
			if v.K == KCall && v.Fn == lastIndex {
				// require guard: closure param id == r.id
				f := fi.FactsAt(st.Instr)
				ok := false
				for _, a := range f.Atoms {
					if a.K == AEq && len(a.L.T) == 2 && a.L.K == 0 {
						hasID, hasParam := false, false
						for _, s := range a.L.S {
							if s.K == KField && s.Fld == idF {
								hasID = true
							}
							if s.K == KParam {
								hasParam = true
							}
						}
						if hasID && hasParam {
							ok = true
						}
					}
				}
				c.Result(ok, rule, "own Progress.Match = lastIndex", fnName(st.Fn), site, "only for id == r.id (the node's own log)", strings.Join(f.Describe(), "; "))
				continue
			}
			if v.K == KPhi && ownLastIndexPhi(fi, v, lastIndex, idF) {
				c.Ok(rule, "reset Progress.Match", fnName(st.Fn), site, "Match reset to 0, or to the node's own last index when id == r.id", v.Key())
				continue
			}
			c.Bad(rule, "store Progress.Match", fnName(st.Fn), site, "Match is written only by MaybeUpdate, resets to 0, or own lastIndex", fmt.Sprintf("value %s", v))
		}
	}
	// callers of MaybeUpdate
	for _, cs := range p.CallsTo(maybeUpdate) {
		fi := p.Info(cs.Caller)
		site := p.site(cs.Instr)
		arg := fi.Sym(callArgs(cs.Instr)[1])
		// argument must be <msg>.GetIndex()
		if !(arg.K == KCall && arg.Fn == getIndex) {
			c.Bad(rule, "MaybeUpdate argument", fnName(cs.Caller), site, "argument <- m.GetIndex() of an acknowledgement", fmt.Sprintf("argument = %s", arg))
			continue
		}
		m := arg.Args[0]
		prT := p.Prove(fi, cs.Instr, []Req{ReqCmp(CallSym(getType, m), "==", constSym(msgAppResp))})
		c.Result(prT.OK, rule, "MaybeUpdate under MsgAppResp", fnName(cs.Caller), site, "m.GetType() == MsgAppResp", describeProof(prT), prT.Chain...)
		prR := p.Prove(fi, cs.Instr, []Req{ReqBool(CallSym(getReject, m), false)})
		c.Result(prR.OK, rule, "MaybeUpdate under !Reject", fnName(cs.Caller), site, "!m.GetReject()", describeProof(prR), prR.Chain...)
	}
	// the acknowledging side of a snapshot
	cSnapshotReply(c, rule+".snap")
	// the acknowledging side of an append: every non-rejecting MsgAppResp names an index the
	// sender has verified against the leader's log (or its own log, for the leader's self-ack)
	hae := p.Method("raft", "raft", "handleAppendEntries")
	handleSnapshot := p.Method("raft", "raft", "handleSnapshot")
	appendEntry := p.Method("raft", "raft", "appendEntry")
	maybeAppendL := p.Method("raft", "raftLog", "maybeAppend")
	committedF := p.Field("raft", "raftLog", "committed")
	prevF := p.Field("raft", "logSlice", "prev")
	eidI := p.Field("raft", "entryID", "index")
	nAck := 0
	for _, lit := range p.Lits(msgT) {
		tc, okT := lit.TypeConsts(p)
		if !okT || len(tc) != 1 || tc[0] != msgAppResp || lit.Fn == handleSnapshot {
			continue
		}
		if rj := lit.FieldSym(p, "Reject"); rj != nil && rj.K == KConst && rj.C != nil && rj.C.String() == "true" {
			continue
		}
		fi := p.Info(lit.Fn)
		site := p.site(lit.Alloc)
		idx := lit.FieldSym(p, "Index")
		if idx == nil {
			c.OkTrivial(rule+".app", "MsgAppResp without an index", fnName(lit.Fn), site, "acknowledges nothing (index 0)", "")
			continue
		}
		nAck++
		f := fi.FactsAt(lit.Alloc)
		tested := &Facts{FI: fi, Atoms: f.Tested}
		ok := false
		why := "unclassified acknowledgement"
		switch {
		case idx.K == KExtract && idx.Idx == 0 && idx.Args[0].K == KCall && idx.Args[0].Fn == maybeAppendL:
			okv := &Sym{K: KExtract, Idx: 1, Args: idx.Args, V: nil}
			ok = tested.HasBool(func(s *Sym) bool {
				return s.K == KExtract && s.Idx == 1 && len(s.Args) == 1 && s.Args[0].Key() == okv.Args[0].Key()
			}, true) != nil
			why = "index returned by maybeAppend, which reported success"
		case idx.K == KField && idx.Fld == committedF && lit.Fn == hae:
			// stale append below the commit index: committed entries are known to match
			for _, a := range tested.Atoms {
				if a.K == ALe {
					for k, sy := range a.L.S {
						if sy.K == KField && sy.Fld == eidI && a.L.T[k] == 1 && strings.Contains(sy.Key(), prevF.Name()) {
							ok = true
						}
					}
				}
			}
			why = "commit index, for an append that starts below it"
		case idx.K == KCall && idx.Fn != nil && (idx.Fn == lastIndex || idx.Fn == p.Method("raft", "raftLog", "append")) && lit.Fn == appendEntry:
			to := lit.FieldSym(p, "To")
			ok = to != nil && to.K == KField && to.Fld == idF
			why = "the leader's acknowledgement of its own append (To: r.id)"
		}
		c.Result(ok, rule+".app", "MsgAppResp index", fnName(lit.Fn), site, "Index <- maybeAppend's last new index (on success) | commit index (append below commit) | own last index (lastIndex() / raftLog.append result) addressed to itself", why+": "+sanitizeKey(idx.Key()))
	}
	c.Result(nAck >= 3, rule+".app", "acknowledging MsgAppResp literals", "-", "-", "follower success, follower stale, leader self-ack", fmt.Sprint(nAck))
}

var _ = types.Typ

// ownLastIndexPhi: v merges constant 0 with raftLog.lastIndex(), and the non-zero choice is taken
// only under `<closure parameter> == r.id`.
func ownLastIndexPhi(fi *FuncInfo, v *Sym, lastIndex *ssa.Function, idF *types.Var) bool {
	ph, ok := v.V.(*ssa.Phi)
	if !ok {
		return false
	}
	shape := true
	var paramVals []*ssa.Parameter
	f := fi.phiBF(ph, 0, func(e ssa.Value) *BF {
		if k, isK := e.(*ssa.Const); isK && k.Value != nil && k.Value.String() == "0" {
			return bfConst(false)
		}
		if es := fi.Sym(e); es.K == KCall && es.Fn == lastIndex {
			return bfConst(true)
		}
		if prm, isP := e.(*ssa.Parameter); isP {
			// the last index handed in by the caller: checked at every call site below
			paramVals = append(paramVals, prm)
			return bfConst(true)
		}
		shape = false
		return bfConst(true)
	})
	if f == nil || !shape {
		return false
	}
	impliesOwn := func(g *BF) bool {
		am := map[string]*BAtom{}
		g.atoms(am)
		for _, a := range am {
			if a.EqL == nil || len(a.EqL.T) != 2 || a.EqL.K != 0 {
				continue
			}
			hasID, hasParam := false, false
			for _, s := range a.EqL.S {
				if s.K == KField && s.Fld == idF {
					hasID = true
				}
				if s.K == KParam {
					hasParam = true
				}
			}
			if hasID && hasParam {
				if ok, _ := bfImplies(g, &BF{Op: 'a', Atom: a}); ok {
					return true
				}
			}
		}
		return false
	}
	if len(paramVals) == 0 {
		return impliesOwn(f)
	}
	// a helper: at each of its call sites the value parameter is lastIndex() and the selecting
	// condition, rewritten in the caller's terms, entails `<closure parameter> == r.id`
	p := fi.P
	sites := p.CallsTo(fi.Fn)
	if len(sites) == 0 {
		return false
	}
	for _, cs := range sites {
		cfi := p.Info(cs.Caller)
		args := callArgs(cs.Instr)
		if len(args) != len(fi.Fn.Params) {
			return false
		}
		m := map[ssa.Value]*Sym{}
		for i, prm := range fi.Fn.Params {
			m[prm] = cfi.Sym(args[i])
		}
		for _, pv := range paramVals {
			if a := m[pv]; !(a.K == KCall && a.Fn == lastIndex) {
				return false
			}
		}
		if !impliesOwn(substBF(f, m)) {
			return false
		}
	}
	return true
}

// C06.F — follower-side commit clamps and other commit sources.
func c06Follower(c *Check) {
	p := c.P
	commitTo := p.Method("raft", "raftLog", "commitTo")
	maybeAppend := p.Method("raft", "raftLog", "maybeAppend")
	matchTerm := p.Method("raft", "raftLog", "matchTerm")
	restore := p.Method("raft", "raft", "restore")
	handleHeartbeat := p.Method("raft", "raft", "handleHeartbeat")
	logMaybeCommit := p.Method("raft", "raftLog", "maybeCommit")
	prevF := p.Field("raft", "logSlice", "prev")
	entsF := p.Field("raft", "logSlice", "entries")
	eidI := p.Field("raft", "entryID", "index")
	committedF := p.Field("raft", "raftLog", "committed")
	raftLogF := p.Field("raft", "raft", "raftLog")
	matchF := p.Field("tracker", "Progress", "Match")
	getCommit := p.Method("raftpb", "Message", "GetCommit")
	msgT := p.Type("raftpb", "Message")
	if commitTo == nil || maybeAppend == nil || matchTerm == nil {
		return
	}
	hbClamped := false
	// commit sources: every call of commitTo (or of a thin wrapper that passes its own parameter on)
	type commitSite struct {
		cs     CallSite
		argIdx int
	}
	var commitSites []commitSite
	for _, cs := range p.CallsTo(commitTo) {
		commitSites = append(commitSites, commitSite{cs, 1})
	}
	for i := 0; i < len(commitSites) && i < 64; i++ {
		cs := commitSites[i].cs
		fi := p.Info(cs.Caller)
		site := p.site(cs.Instr)
		args := callArgs(cs.Instr)
		recv := fi.Sym(args[0])
		arg := fi.Sym(args[commitSites[i].argIdx])
		switch cs.Caller {
		case maybeAppend:
			a := fi.Sym(maybeAppend.Params[1])
			cm := fi.Sym(maybeAppend.Params[2])
			lastnew := &Sym{K: KBin, Name: "+", Args: []*Sym{FieldOf(FieldOf(a, prevF), eidI), {K: KBuiltin, Name: "len", Args: []*Sym{FieldOf(a, entsF)}}}}
			f := fi.FactsAt(cs.Instr)
			ok := f.ImpliesCmp(arg, "<=", lastnew) && f.ImpliesCmp(arg, "<=", cm)
			c.Result(ok, "C06.F1", "follower commit clamp", fnName(cs.Caller), site, "commitTo(x) with x <= leader's commit and x <= prev.index+len(entries) (the prefix just verified)", "argument "+arg.Key())
			tested := f.WasTested(ReqBool(CallSym(matchTerm, recv, FieldOf(a, prevF)), true))
			c.Result(tested, "C06.F1", "follower commit only behind a matching prev", fnName(cs.Caller), site, "matchTerm(a.prev) was tested true on every path", strings.Join(f.Describe(), "; "))
		case logMaybeCommit:
			// G-COMMIT-LEADER.b
		case restore:
			s := fi.Sym(restore.Params[1])
			okArg := arg.Key() == snapIndexSym(p, s).Key()
			id := &Sym{K: KLit, Typ: p.Type("raft", "entryID"), Args: []*Sym{snapTermSym(p, s), snapIndexSym(p, s)}}
			pr := p.Prove(fi, cs.Instr, []Req{ReqBool(CallSym(matchTerm, recv, id), true)})
			c.Result(okArg && pr.OK, "C06.F3", "snapshot fast-forward of commit", fnName(cs.Caller), site, "commitTo(s.index) only when the log matches (s.term, s.index)", describeProof(pr), pr.Chain...)
		case handleHeartbeat:
			m := fi.Sym(handleHeartbeat.Params[1])
			if arg.Key() == CallSym(getCommit, m).Key() {
				c.Ok("C06.F2", "heartbeat commit taken as sent", fnName(cs.Caller), site, "receiver trusts m.Commit; the sender must clamp it (checked at the MsgHeartbeat literal)", arg.Key())
			} else {
				hbClamped = true
				c.Ok("C06.F2", "heartbeat commit transformed by the receiver", fnName(cs.Caller), site, "receiver clamps itself; sender obligation relaxed", arg.Key())
			}
		default:
			// a wrapper that forwards its own parameter: its callers are the commit sources
			forwarded := false
			if arg.K == KParam && cs.Caller != commitTo {
				for pi, prm := range cs.Caller.Params {
					if ssa.Value(prm) == arg.V {
						forwarded = true
						for _, cs2 := range p.CallsTo(cs.Caller) {
							commitSites = append(commitSites, commitSite{cs2, pi})
						}
					}
				}
			}
			if forwarded {
				c.OkTrivial("C06.X", "commitTo wrapper", fnName(cs.Caller), site, "forwards its parameter; classified at its callers", arg.Key())
				continue
			}
			c.Bad("C06.X", "unclassified commit source", fnName(cs.Caller), site, "the commit index moves only through: the follower clamp in maybeAppend, the leader's term-checked raftLog.maybeCommit, the snapshot fast-forward in restore, and the heartbeat handler", "commitTo("+arg.Key()+"): nothing establishes that the value is quorum-backed in the current term or verified against the leader's log")
		}
	}
	// heartbeat and append literals
	hb := p.ConstVal("raftpb", "MsgHeartbeat")
	app := p.ConstVal("raftpb", "MsgApp")
	for _, lit := range p.Lits(msgT) {
		tc, ok := lit.TypeConsts(p)
		if !ok || len(tc) != 1 {
			continue
		}
		fi := p.Info(lit.Fn)
		site := p.site(lit.Alloc)
		cm := lit.FieldSym(p, "Commit")
		switch tc[0] {
		case hb:
			if cm == nil {
				c.Ok("C06.F2", "MsgHeartbeat without Commit", fnName(lit.Fn), site, "no commit index carried", "")
				continue
			}
			r := fi.Sym(lit.Fn.Params[0])
			f := fi.FactsAt(lit.Alloc)
			// the value may be a builtin min or a hand-written compare-select (a phi): decide per incoming value
			edges := []phiEdge{{nil, f}}
			syms := []*Sym{cm}
			if cm.K == KPhi {
				edges, syms = nil, nil
				for _, pe := range phiEdges(fi, cm.V, lit.Alloc) {
					edges = append(edges, pe)
					syms = append(syms, fi.Sym(pe.val))
				}
			}
			var mt *Sym
			for _, sy := range syms {
				sy.Walk(func(x *Sym) {
					if x.K == KField && x.Fld == matchF {
						mt = x
					}
				})
			}
			okC, okM := len(edges) > 0, mt != nil
			for i, pe := range edges {
				okC = okC && pe.facts.ImpliesCmp(syms[i], "<=", FieldOf(FieldOf(r, raftLogF), committedF))
				okM = okM && pe.facts.ImpliesCmp(syms[i], "<=", mt)
			}
			c.Result(okC && (okM || hbClamped), "C06.F2", "MsgHeartbeat.Commit clamp", fnName(lit.Fn), site, "Commit <= min(pr.Match, committed): never beyond what the follower is known to hold", "Commit <- "+cm.Key())
		case app:
			r := fi.Sym(lit.Fn.Params[0])
			ok := cm != nil && cm.Key() == FieldOf(FieldOf(r, raftLogF), committedF).Key()
			c.Result(ok, "C06.F4", "MsgApp.Commit", fnName(lit.Fn), site, "Commit <- r.raftLog.committed", fmt.Sprintf("%v", cm))
		}
	}
}
