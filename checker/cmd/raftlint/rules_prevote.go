package main

import (
	"fmt"
	"go/types"
	"strings"

	"golang.org/x/tools/go/ssa"
)

// C17 — PreVote and CheckQuorum prevent disruption.
func c17Disruption(c *Check) {
	p := c.P
	step := p.Method("raft", "raft", "Step")
	reset := p.Method("raft", "raft", "reset")
	send := p.Method("raft", "raft", "send")
	becomeFollower := p.Method("raft", "raft", "becomeFollower")
	becomePre := p.Method("raft", "raft", "becomePreCandidate")
	becomeCandidate := p.Method("raft", "raft", "becomeCandidate")
	hup := p.Method("raft", "raft", "hup")
	campaign := p.Method("raft", "raft", "campaign")
	stepFollower := p.Func("raft", "stepFollower")
	stepCandidate := p.Func("raft", "stepCandidate")
	stepLeader := p.Func("raft", "stepLeader")
	tickHeartbeat := p.Method("raft", "raft", "tickHeartbeat")
	termF := p.Field("raft", "raft", "Term")
	voteF := p.Field("raft", "raft", "Vote")
	leadF := p.Field("raft", "raft", "lead")
	elapsedF := p.Field("raft", "raft", "electionElapsed")
	timeoutF := p.Field("raft", "raft", "electionTimeout")
	checkQuorumF := p.Field("raft", "raft", "checkQuorum")
	preVoteF := p.Field("raft", "raft", "preVote")
	stateF := p.Field("raft", "raft", "state")
	recentActiveF := p.Field("tracker", "Progress", "RecentActive")
	isLearnerF := p.Field("tracker", "Progress", "IsLearner")
	getType := p.Method("raftpb", "Message", "GetType")
	getTerm := p.Method("raftpb", "Message", "GetTerm")
	getReject := p.Method("raftpb", "Message", "GetReject")
	getFrom := p.Method("raftpb", "Message", "GetFrom")
	none := p.ConstVal("raft", "None")
	msgVote := p.ConstVal("raftpb", "MsgVote")
	msgPreVote := p.ConstVal("raftpb", "MsgPreVote")
	msgPreVoteResp := p.ConstVal("raftpb", "MsgPreVoteResp")
	if step == nil || reset == nil || send == nil || becomeFollower == nil {
		return
	}
	sfi := p.Info(step)
	r := sfi.Sym(step.Params[0])
	m := sfi.Sym(step.Params[1])
	typeIs := func(t int64) *BF { return bfCmp(CallSym(getType, m), "==", constSym(t)) }

	// --- C17.P1: a pre-vote request changes neither term nor vote nor the election timer
	nEff := 0
	for _, in := range p.liveInstrsOf(step) {
		what := ""
		switch x := in.(type) {
		case *ssa.Store:
			if fa, ok := x.Addr.(*ssa.FieldAddr); ok {
				f := derefStruct(fa.X.Type()).Field(fa.Field)
				if _, fresh := rootOfAddr(fa).(*ssa.Alloc); !fresh && (f == termF || f == voteF || f == elapsedF || f == leadF) {
					what = "store to " + f.Name()
				}
			}
		case ssa.CallInstruction:
			if _, isB := x.Common().Value.(*ssa.Builtin); isB {
				continue
			}
			if p.CallReaches(x, reset) {
				what = "call reaching reset: " + sanitizeKey(sfi.Sym(valueOfCall(x)).Key())
			}
		}
		if what == "" {
			continue
		}
		nEff++
		ok, und, detail := sfi.pathsImplyOpt(in, -1, bfNot(typeIs(msgPreVote)), true)
		if und {
			c.Undecided("C17.P1", what, fnName(step), p.site(in), "never reached while handling a MsgPreVote", detail)
		} else {
			c.Result(ok, "C17.P1", what, fnName(step), p.site(in), "never reached while handling a MsgPreVote (a pre-vote request changes no term, vote, leader or timer)", detail)
		}
	}
	c.Result(nEff >= 4, "C17.P1", "state-changing sites in Step", fnName(step), p.Pos(step.Pos()), "sites enumerated", fmt.Sprint(nEff))
	// --- C17.P2: becoming a pre-candidate touches neither term nor vote
	if becomePre != nil {
		e := p.Effects(becomePre)
		c.Result(!e.Writes[termF] && !e.Writes[voteF], "C17.P2", "mod-set of becomePreCandidate", fnName(becomePre), p.Pos(becomePre.Pos()), "transitively writes neither raft.Term nor raft.Vote", fmt.Sprintf("%d written locations", len(e.Writes)))
	}
	// --- C17.P3: with PreVote a real campaign starts only after a won pre-vote or on transfer
	if hup != nil && campaign != nil {
		for _, cs := range p.CallsTo(hup) {
			fi := p.Info(cs.Caller)
			arg := fi.Sym(callArgs(cs.Instr)[1])
			site := p.site(cs.Instr)
			kind := ""
			if arg.K == KConst && arg.C != nil {
				kind = strings.Trim(arg.C.ExactString(), `"`)
			}
			rr := fi.Sym(callArgs(cs.Instr)[0])
			switch kind {
			case "CampaignElection":
				pr := p.Prove(fi, cs.Instr, []Req{ReqBool(FieldOf(rr, preVoteF), false)})
				c.Result(pr.OK, "C17.P3", "hup(campaignElection)", fnName(cs.Caller), site, "a direct election only when PreVote is disabled", describeProof(pr), pr.Chain...)
			case "CampaignPreElection":
				c.Ok("C17.P3", "hup(campaignPreElection)", fnName(cs.Caller), site, "pre-election raises no term", "")
			case "CampaignTransfer":
				ok := cs.Caller == stepFollower
				if ok {
					mm := fi.Sym(stepFollower.Params[1])
					pr := p.Prove(fi, cs.Instr, []Req{ReqCmp(CallSym(getType, mm), "==", constSym(p.ConstVal("raftpb", "MsgTimeoutNow")))})
					ok = pr.OK
				}
				c.Result(ok, "C17.P3", "hup(campaignTransfer)", fnName(cs.Caller), site, "forced election only on MsgTimeoutNow from the leader", "")
			default:
				// a campaign type chosen before the call: decide per incoming value
				if arg.K == KPhi {
					okAll := true
					var parts []string
					edges := phiEdges(fi, arg.V, cs.Instr)
					for _, pe := range edges {
						es := fi.Sym(pe.val)
						k := ""
						if es.K == KConst && es.C != nil {
							k = strings.Trim(es.C.ExactString(), `"`)
						}
						parts = append(parts, k)
						switch k {
						case "CampaignPreElection":
						case "CampaignElection":
							okAll = okAll && pe.facts.HasBool(func(sy *Sym) bool { return sy.K == KField && sy.Fld == preVoteF }, false) != nil
						default:
							okAll = false
						}
					}
					c.Result(okAll && len(edges) > 0, "C17.P3", "hup(campaign type chosen per branch)", fnName(cs.Caller), site, "campaignElection only where PreVote is disabled; otherwise campaignPreElection", strings.Join(parts, " | "))
					continue
				}
				c.Bad("C17.P3", "hup argument", fnName(cs.Caller), site, "a constant campaign type", arg.Key())
			}
		}
		for _, cs := range p.CallsTo(campaign) {
			if cs.Caller == hup {
				continue
			}
			fi := p.Info(cs.Caller)
			rr := fi.Sym(callArgs(cs.Instr)[0])
			f := fi.FactsAt(cs.Instr)
			okPre := f.ImpliesCmp(FieldOf(rr, stateF), "==", constSym(p.ConstVal("raft", "StatePreCandidate")))
			okWon := false
			for _, a := range f.Atoms {
				if a.K == AEq && len(a.L.T) == 1 {
					for k, s := range a.L.S {
						if s.K == KExtract && s.Idx == 2 && a.L.T[k]*(-a.L.K) == p.ConstVal("quorum", "VoteWon") {
							okWon = true
						}
					}
				}
			}
			c.Result(cs.Caller == stepCandidate && okPre && okWon, "C17.P3", "campaign continued after a pre-vote", fnName(cs.Caller), p.site(cs.Instr), "only a pre-candidate that won its pre-vote tally", strings.Join(f.Describe(), "; "))
		}
		if becomeCandidate != nil {
			for _, cs := range p.CallsTo(becomeCandidate) {
				ok := cs.Caller == campaign
				if ok {
					cfi := p.Info(campaign)
					f := cfi.FactsAt(cs.Instr)
					// reached on the non-pre-election arm: t != campaignPreElection
					ok = false
					for _, a := range f.Atoms {
						if a.K == ASame && a.Neg && (strings.Contains(a.S.Key(), "CampaignPreElection") || strings.Contains(a.S2.Key(), "CampaignPreElection")) {
							ok = true
						}
					}
				}
				c.Result(ok, "C17.P3", "caller of becomeCandidate", fnName(cs.Caller), p.site(cs.Instr), "only campaign(), on its non-pre-election arm", "")
			}
		}
	}
	// --- C17.P4: pre-vote requests advertise Term+1 without adopting it; a granted pre-vote response raises no term
	if campaign != nil {
		cfi := p.Info(campaign)
		cr := cfi.Sym(campaign.Params[0])
		msgT := p.Type("raftpb", "Message")
		for _, lit := range p.Lits(msgT) {
			if lit.Fn != campaign {
				continue
			}
			if tv, ok := lit.Fields["Term"]; ok {
				// the term is a phi: r.Term+1 on the pre-election edge, r.Term otherwise
				ts := cfi.PointeeOf(tv)
				if ts.K == KPhi {
					ph := ts.V.(*ssa.Phi)
					okEdges := len(ph.Edges) == 2
					for _, e := range ph.Edges {
						d := LinOf(cfi.Sym(e))
						d.add(LinOf(FieldOf(cr, termF)), -1)
						if len(d.T) != 0 || (d.K != 0 && d.K != 1) {
							okEdges = false
						}
					}
					c.Result(okEdges, "C17.P4", "campaign message term", fnName(campaign), p.site(lit.Alloc), "Term <- r.Term+1 (pre-vote, not stored) or r.Term (after becomeCandidate)", ts.Key())
				}
			}
		}
	}
	for _, ci := range p.CallsIn(step, becomeFollower) {
		spec := bfNot(bfAnd(typeIs(msgPreVoteResp), bfNot(bfSym(CallSym(getReject, m)))))
		ok, und, detail := sfi.pathsImplyOpt(ci, -1, spec, true)
		if und {
			c.Undecided("C17.P4", "becomeFollower in Step", fnName(step), p.site(ci), "not on a granted MsgPreVoteResp", detail)
		} else {
			c.Result(ok, "C17.P4", "becomeFollower in Step", fnName(step), p.site(ci), "a granted pre-vote response (future term) does not raise the receiver's term", detail)
		}
	}
	// --- C17.Q1: in-lease vote requests are ignored before anything else happens
	{
		// the `force` atom is read from the code: bytes.Equal(m.Context, campaignTransfer)
		var force *BF
		for _, in := range p.liveInstrsOf(step) {
			if call, ok := in.(*ssa.Call); ok {
				if callee := call.Common().StaticCallee(); callee != nil && callee.Pkg != nil && callee.Pkg.Pkg.Path() == "bytes" && callee.Name() == "Equal" {
					force = sfi.valueBF(call, 0)
				}
			}
		}
		if force == nil {
			c.Bad("C17.Q1", "force-transfer test", fnName(step), p.Pos(step.Pos()), "Step distinguishes forced (leader-transfer) campaigns", "no bytes.Equal test found")
		} else {
			inLease := bfAnd(bfSym(FieldOf(r, checkQuorumF)), bfCmp(FieldOf(r, leadF), "!=", constSym(none)), bfCmp(FieldOf(r, elapsedF), "<", FieldOf(r, timeoutF)))
			higher := bfCmp(CallSym(getTerm, m), ">", FieldOf(r, termF))
			blocked := bfAnd(higher, bfOr(typeIs(msgVote), typeIs(msgPreVote)), bfNot(force), inLease)
			n := 0
			for _, in := range p.liveInstrsOf(step) {
				ci, ok := in.(ssa.CallInstruction)
				if !ok {
					continue
				}
				isSend := false
				for _, cal := range p.Callees(ci) {
					if cal == send {
						isSend = true
					}
				}
				if !isSend && !p.CallReaches(ci, reset) {
					continue
				}
				if _, isB := ci.Common().Value.(*ssa.Builtin); isB {
					continue
				}
				n++
				okI, und, detail := sfi.pathsImplyOpt(in, -1, bfNot(blocked), true)
				construct := "effect while a lease is held: " + sanitizeKey(sfi.Sym(valueOfCall(ci)).Key())
				if len(construct) > 110 {
					construct = construct[:110]
				}
				if und {
					c.Undecided("C17.Q1", construct, fnName(step), p.site(in), "unreachable for a non-forced higher-term vote request while checkQuorum && lead != None && electionElapsed < electionTimeout", detail)
				} else {
					c.Result(okI, "C17.Q1", construct, fnName(step), p.site(in), "unreachable for a non-forced higher-term vote request while checkQuorum && lead != None && electionElapsed < electionTimeout", detail)
				}
			}
			c.Result(n >= 5, "C17.Q1", "effect sites in Step", fnName(step), p.Pos(step.Pos()), "sites enumerated", fmt.Sprint(n))
		}
	}
	// --- C17.Q2: lease evidence
	if stepFollower != nil {
		ffi := p.Info(stepFollower)
		fm := ffi.Sym(stepFollower.Params[1])
		handlers := map[string]*ssa.Function{
			"MsgApp":       p.Method("raft", "raft", "handleAppendEntries"),
			"MsgHeartbeat": p.Method("raft", "raft", "handleHeartbeat"),
			"MsgSnap":      p.Method("raft", "raft", "handleSnapshot"),
		}
		for _, name := range []string{"MsgApp", "MsgHeartbeat", "MsgSnap"} {
			t := p.ConstVal("raftpb", name)
			okE, okL := false, false
			// the arm: instructions under m.Type == t, or (arms merged into one case) whatever
			// dominates the call of this type's handler
			var hcalls []ssa.Instruction
			if h := handlers[name]; h != nil {
				for _, ci := range p.CallsIn(stepFollower, h) {
					hcalls = append(hcalls, ci)
				}
			}
			for _, as := range p.ArmStores(stepFollower, func(in ssa.Instruction) bool {
				if ffi.FactsAt(in).EnumFact(CallSym(getType, fm), t) == 1 {
					return true
				}
				for _, hc := range hcalls {
					if in != hc && ffi.InstrDominates(in, hc) && ffi.FactsAt(in).EnumFact(CallSym(getType, fm), t) != -1 {
						return true
					}
				}
				return false
			}) {
				if as.Field == elapsedF {
					if z, ok := constInt64(as.Val.C); as.Val.K == KConst && ok && z == 0 {
						okE = true
					}
				}
				if as.Field == leadF && as.Val.Key() == CallSym(getFrom, fm).Key() {
					okL = true
				}
			}
			c.Result(okE && okL, "C17.Q2", "follower arm "+name+" renews the lease", fnName(stepFollower), p.Pos(stepFollower.Pos()), "electionElapsed = 0 and lead = m.From (directly or in a helper called from the arm)", fmt.Sprintf("elapsed=%v lead=%v", okE, okL))
		}
	}
	for _, st := range p.StoresTo(elapsedF) {
		if st.Fresh || st.Whole {
			continue
		}
		fi := p.Info(st.Fn)
		v := fi.Sym(st.Val)
		base := storeBase(fi, st)
		d := LinOf(v)
		isZero := len(d.T) == 0 && d.K == 0
		d.add(LinOf(FieldOf(base, elapsedF)), -1)
		isInc := len(d.T) == 0 && d.K == 1
		c.Result(isZero || isInc, "C17.Q2", "store raft.electionElapsed", fnName(st.Fn), p.site(st.Instr), "the lease clock is only reset to 0 or advanced by one tick", v.Key())
	}
	for _, st := range p.StoresTo(leadF) {
		if st.Fresh || st.Whole {
			continue
		}
		fi := p.Info(st.Fn)
		v := fi.Sym(st.Val)
		if z, ok := constInt64(v.C); !(v.K == KConst && ok && z == none) {
			continue
		}
		okWho := st.Fn == reset || st.Fn == becomePre
		if st.Fn == stepFollower {
			fm := fi.Sym(stepFollower.Params[1])
			f := fi.FactsAt(st.Instr)
			okWho = f.EnumFact(CallSym(getType, fm), p.ConstVal("raftpb", "MsgForgetLeader")) == 1
		}
		c.Result(okWho, "C17.Q2", "store raft.lead = None", fnName(st.Fn), p.site(st.Instr), "the leader is forgotten only by reset, becomePreCandidate or the MsgForgetLeader arm", "")
	}
	// --- C17.Q3: leader step-down edge
	if tickHeartbeat != nil && stepLeader != nil {
		tfi := p.Info(tickHeartbeat)
		tr := tfi.Sym(tickHeartbeat.Params[0])
		found := false
		msgT := p.Type("raftpb", "Message")
		cq := p.ConstVal("raftpb", "MsgCheckQuorum")
		for _, lit := range p.Lits(msgT) {
			if lit.Fn != tickHeartbeat {
				continue
			}
			tc, ok := lit.TypeConsts(p)
			if !ok || len(tc) != 1 || tc[0] != cq {
				continue
			}
			for _, u := range lit.Uses(p) {
				if u.Kind == "arg" && len(u.Callee) == 1 && u.Callee[0] == step {
					f := tfi.FactsAt(u.Instr)
					okG := f.HasBool(isKey(FieldOf(tr, checkQuorumF).Key()), true) != nil
					tested := &Facts{FI: tfi, Atoms: f.Tested}
					okT := tested.ImpliesCmp(FieldOf(tr, elapsedF), ">=", FieldOf(tr, timeoutF))
					found = true
					// and under nothing else: whenever the window ends with checkQuorum on, the check runs
					okAlways, whyAlways := false, "path formula too large"
					if pf, okP := tfi.PathFormula(u.Instr, -1); okP {
						spec := bfAnd(bfSym(FieldOf(tr, checkQuorumF)), bfCmp(FieldOf(tr, elapsedF), ">=", FieldOf(tr, timeoutF)))
						okAlways, whyAlways = bfImplies(spec, pf)
					}
					c.Result(okG && okT && okAlways, "C17.Q3", "tickHeartbeat steps MsgCheckQuorum", fnName(tickHeartbeat), p.site(u.Instr), "exactly under checkQuorum once electionElapsed >= electionTimeout (no further condition, e.g. a pending transfer, may suppress the check)", strings.Join(f.Describe(), "; ")+" "+shorten(whyAlways, 300))
				}
			}
		}
		c.Result(found, "C17.Q3", "CheckQuorum edge exists", fnName(tickHeartbeat), p.Pos(tickHeartbeat.Pos()), "tickHeartbeat -> Step(MsgCheckQuorum)", "")
		// the arm: !QuorumActive -> becomeFollower(r.Term, None); then RecentActive=false for id != r.id
		lfi := p.Info(stepLeader)
		lm := lfi.Sym(stepLeader.Params[1])
		quorumActive := p.Method("tracker", "ProgressTracker", "QuorumActive")
		okDown := false
		for _, ci := range p.CallsIn(stepLeader, becomeFollower) {
			f := lfi.FactsAt(ci)
			if f.EnumFact(CallSym(getType, lm), cq) == 1 && f.HasBool(isCallTo(quorumActive), false) != nil {
				okDown = true
			}
		}
		c.Result(okDown, "C17.Q3", "leader steps down without an active quorum", fnName(stepLeader), p.Pos(stepLeader.Pos()), "MsgCheckQuorum arm: !QuorumActive() -> becomeFollower", "")
		okClear := false
		for _, st := range p.StoresTo(recentActiveF) {
			if st.Whole || st.Fresh {
				continue
			}
			top := st.Fn
			for top.Parent() != nil {
				top = top.Parent()
			}
			fi := p.Info(st.Fn)
			v := fi.Sym(st.Val)
			if top == stepLeader && st.Fn != stepLeader && v.K == KConst && v.C != nil && v.C.String() == "false" {
				// reached for every peer other than the node itself: (id != r.id) entails the path condition
				pf, okP := fi.PathFormula(st.Instr, -1)
				if !okP {
					continue
				}
				am := map[string]*BAtom{}
				pf.atoms(am)
				for _, a := range am {
					if a.EqL == nil || len(a.EqL.T) != 2 || a.EqL.K != 0 {
						continue
					}
					hasID, hasParam := false, false
					for _, s := range a.EqL.S {
						if s.K == KField && s.Fld.Name() == "id" {
							hasID = true
						}
						if s.K == KParam {
							hasParam = true
						}
					}
					if hasID && hasParam {
						if ok, _ := bfImplies(bfNot(&BF{Op: 'a', Atom: a}), pf); ok {
							okClear = true
						}
					}
				}
				if len(am) == 0 && pf.Op == 'c' && pf.Val {
					okClear = true
				}
			}
		}
		c.Result(okClear, "C17.Q3", "CheckQuorum clears RecentActive", fnName(stepLeader), p.Pos(stepLeader.Pos()), "every peer other than the node itself is marked inactive (must prove liveness again in the next window)", "")
		if quorumActive != nil {
			qfi := p.Info(quorumActive)
			jvr := p.Method("quorum", "JointConfig", "VoteResult")
			okQ := false
			for _, ret := range returnsOf(qfi) {
				v := qfi.RetSym(ret, 0)
				if v.K == KBin && v.Name == "==" {
					for _, a := range v.Args {
						if a.K == KCall && a.Fn == jvr {
							okQ = true
						}
					}
				}
			}
			// votes[id] = pr.RecentActive for non-learners
			okV := false
			for _, an := range quorumActive.AnonFuncs {
				afi := p.Info(an)
				for _, in := range p.liveInstrsOf(an) {
					if mu, ok := in.(*ssa.MapUpdate); ok {
						v := afi.Sym(mu.Value)
						f := afi.FactsAt(mu)
						if v.K == KField && v.Fld == recentActiveF && f.HasBool(func(s *Sym) bool { return s.K == KField && s.Fld == isLearnerF }, false) != nil {
							okV = true
						}
					}
				}
			}
			c.Result(okQ && okV, "C17.Q3", "QuorumActive", fnName(quorumActive), p.Pos(quorumActive.Pos()), "joint VoteResult over RecentActive of non-learners == VoteWon", fmt.Sprintf("joint=%v votes=%v", okQ, okV))
		}
	}
	// RecentActive = true only on evidence from that peer
	for _, st := range p.StoresTo(recentActiveF) {
		if st.Whole {
			continue
		}
		fi := p.Info(st.Fn)
		v := fi.Sym(st.Val)
		if !(v.K == KConst && v.C != nil && v.C.String() == "true") {
			continue
		}
		site := p.site(st.Instr)
		switch {
		case st.Fresh:
			c.Ok("C17.Q3", "RecentActive of a new Progress", fnName(st.Fn), site, "a newly added peer starts active", "")
		case st.Fn == stepLeader:
			// the Progress is that of m.From
			base := storeBase(fi, st)
			ok := strings.Contains(base.Key(), "GetFrom()")
			// and only for messages that really come from that peer over the network
			lm := fi.Sym(stepLeader.Params[1])
			f := fi.FactsAt(st.Instr)
			okType := f.EnumFact(CallSym(getType, lm), p.ConstVal("raftpb", "MsgAppResp")) == 1 || f.EnumFact(CallSym(getType, lm), p.ConstVal("raftpb", "MsgHeartbeatResp")) == 1
			c.Result(ok && okType, "C17.Q3", "RecentActive = true", fnName(st.Fn), site, "set for the sender of a MsgAppResp / MsgHeartbeatResp (local reports about a peer such as MsgUnreachable are not evidence of liveness)", base.Key()+" {"+strings.Join(f.Describe(), "; ")+"}")
		case st.Fn == p.Method("raft", "raft", "becomeLeader"):
			base := storeBase(fi, st)
			ok := strings.Contains(base.Key(), ".id]")
			c.Result(ok, "C17.Q3", "RecentActive = true (self)", fnName(st.Fn), site, "the leader's own progress", base.Key())
		default:
			c.Bad("C17.Q3", "RecentActive = true", fnName(st.Fn), site, "liveness is recorded only on a message from that peer", "")
		}
	}
	_ = types.Typ
}
