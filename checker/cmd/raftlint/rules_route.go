package main

import (
	"fmt"
	"go/types"
	"sort"
	"strings"

	"golang.org/x/tools/go/ssa"
)

// promiseTypes returns P = {MsgAppResp, MsgVoteResp, MsgPreVoteResp}.
func promiseTypes(p *Prog) []int64 {
	return []int64{p.ConstVal("raftpb", "MsgAppResp"), p.ConstVal("raftpb", "MsgVoteResp"), p.ConstVal("raftpb", "MsgPreVoteResp")}
}

// sendRole discovers the function that appends to raft.msgs (DESIGN §0: roles
// are found from the data they touch).
func sendRole(c *Check, rule string) (*ssa.Function, *ssa.Parameter) {
	p := c.P
	msgsF := p.Field("raft", "raft", "msgs")
	afterF := p.Field("raft", "raft", "msgsAfterAppend")
	var role *ssa.Function
	var prm *ssa.Parameter
	for _, f := range []*types.Var{msgsF, afterF} {
		if f == nil {
			continue
		}
		for _, st := range p.StoresTo(f) {
			fi := p.Info(st.Fn)
			site := p.site(st.Instr)
			construct := "store raft." + f.Name()
			if st.Fresh {
				c.OkTrivial(rule+".a", construct+" (constructor)", fnName(st.Fn), site, "fresh object", "")
				continue
			}
			if st.Whole {
				c.Bad(rule+".a", construct+" (whole struct)", fnName(st.Fn), site, "queues are written field-wise", "")
				continue
			}
			v := fi.Sym(st.Val)
			if v.K == KNil {
				c.Ok(rule+".a", construct+" = nil", fnName(st.Fn), site, "queues are only cleared or appended to by the send role", "cleared")
				continue
			}
			base, elems, spread, ok := appendParts(st.Val)
			okShape := ok && spread == nil && len(elems) == 1
			if okShape {
				bs := fi.Sym(base)
				okShape = bs.K == KField && bs.Fld == f && bs.Args[0].Key() == storeBase(fi, st).Key()
			}
			var ep *ssa.Parameter
			if okShape {
				ep, _ = elems[0].(*ssa.Parameter)
				okShape = ep != nil
			}
			if !okShape {
				c.Bad(rule+".a", construct, fnName(st.Fn), site, "only `q = append(q, m)` with m a parameter of the one send function", "value "+v.Key())
				continue
			}
			if role == nil {
				role, prm = st.Fn, ep
			}
			if role != st.Fn || prm != ep {
				c.Bad(rule+".a", construct, fnName(st.Fn), site, "both queues are appended to by one function (the send role)", "second appender besides "+fnName(role))
				continue
			}
			c.Ok(rule+".a", construct, fnName(st.Fn), site, "queues are only cleared or appended to by the send role", "append of parameter "+ep.Name())
		}
	}
	return role, prm
}

// G-ROUTE — promise-bearing messages are released only behind the write they depend on.
func gRoute(c *Check) {
	p := c.P
	const rule = "G-ROUTE"
	msgT := p.Type("raftpb", "Message")
	msgsF := p.Field("raft", "raft", "msgs")
	afterF := p.Field("raft", "raft", "msgsAfterAppend")
	stepsF := p.Field("raft", "RawNode", "stepsOnAdvance")
	rdMsgsF := p.Field("raft", "Ready", "Messages")
	respF := p.Field("raftpb", "Message", "Responses")
	asyncF := p.Field("raft", "RawNode", "asyncStorageWrites")
	idF := p.Field("raft", "raft", "id")
	getType := p.Method("raftpb", "Message", "GetType")
	getReject := p.Method("raftpb", "Message", "GetReject")
	getTo := p.Method("raftpb", "Message", "GetTo")
	mtype := p.Type("raftpb", "MessageType")
	P := promiseTypes(p)
	if msgT == nil || msgsF == nil || afterF == nil || stepsF == nil || rdMsgsF == nil {
		return
	}
	send, mprm := sendRole(c, rule)
	if send == nil {
		c.Bad(rule+".a", "send role", "-", "-", "some function appends to raft.msgs", "none found")
		return
	}
	sfi := p.Info(send)
	m := sfi.Sym(mprm)
	// (b) at the append to r.msgs: type ∉ P or the message is a rejection
	for _, st := range p.StoresTo(msgsF) {
		if st.Fn != send || st.Fresh || sfi.Sym(st.Val).K == KNil {
			continue
		}
		var conj []*BF
		for _, t := range P {
			conj = append(conj, bfNot(bfCmp(CallSym(getType, m), "==", constSym(t))))
		}
		spec := bfOr(bfAnd(conj...), bfSym(CallSym(getReject, m)))
		ok, und, detail := sfi.pathsImply(st.Instr, -1, spec)
		req := "every path to the immediate queue: type ∉ " + enumNames(p, mtype, P) + " || m.GetReject()"
		if und {
			c.Undecided(rule+".b", "append to raft.msgs", fnName(send), p.site(st.Instr), req, detail)
		} else {
			c.Result(ok, rule+".b", "append to raft.msgs", fnName(send), p.site(st.Instr), req, detail)
		}
	}
	// (c) typestate: message objects whose type may be in P go only to send
	inP := func(vs []int64) bool {
		for _, v := range vs {
			for _, t := range P {
				if v == t {
					return true
				}
			}
		}
		return false
	}
	typeF := p.Field("raftpb", "Message", "Type")
	for _, st := range p.StoresTo(typeF) {
		if !st.Fresh && !st.Whole {
			c.Bad(rule+".c", "store Message.Type on an existing message", fnName(st.Fn), p.site(st.Instr), "a message's type is fixed at construction", "")
		}
	}
	nP := 0
	for _, lit := range p.Lits(msgT) {
		var tcs []int64
		known := true
		for _, s := range lit.Stores["Type"] {
			vs, ok := p.enumPtrConsts(s.Val)
			if !ok {
				known = false
			}
			tcs = append(tcs, vs...)
		}
		if known && !inP(tcs) {
			continue
		}
		nP++
		site := p.site(lit.Alloc)
		construct := "message literal of type " + enumNames(p, mtype, tcs)
		if !known {
			construct = "message literal of statically unknown type"
		}
		bad := ""
		nSend := 0
		for _, u := range lit.Uses(p) {
			if u.Kind == "arg" && len(u.Callee) == 1 && u.Callee[0] == send {
				nSend++
				continue
			}
			bad += fmt.Sprintf("%s at %s; ", u.Kind, p.site(u.Instr))
		}
		c.Result(bad == "" && nSend > 0, rule+".c", construct, fnName(lit.Fn), site, "flows only into the send role (never directly into Ready.Messages, Responses, stepsOnAdvance or Step)", bad)
	}
	if nP == 0 {
		c.Bad(rule+".c", "promise-typed message literals", "-", "-", "the code constructs promise messages somewhere", "none found")
	}
	// (d) readers of msgsAfterAppend
	// sources: every load of the field, and the results of helpers that return (a slice built from) it
	type afterSrc struct {
		v    ssa.Value
		fn   *ssa.Function
		base *Sym
	}
	var srcs []afterSrc
	for _, ld := range p.FieldLoads(afterF) {
		fn := ld.Parent()
		srcs = append(srcs, afterSrc{ld, fn, derefLoc(p.Info(fn).Sym(ld.X.(*ssa.FieldAddr).X))})
	}
	seenSrc := map[ssa.Value]bool{}
	for si := 0; si < len(srcs) && si < 64; si++ {
		src := srcs[si]
		if seenSrc[src.v] {
			continue
		}
		seenSrc[src.v] = true
		fn := src.fn
		fi := p.Info(fn)
		base := src.base
		for _, sk := range fi.ForwardSinks(src.v) {
			site := p.site(sk.Instr)
			construct := "use of raft.msgsAfterAppend: " + sk.Kind + "/" + sk.Via
			switch {
			case sk.Kind == "return" && (sk.Via == "self" || sk.Via == "base") && fn.Object() != nil && !fn.Object().Exported() && len(p.CallsTo(fn)) > 0:
				// an unexported helper hands the queue (or a slice extending it) to its callers: follow
				for _, cs := range p.CallsTo(fn) {
					if cv, isV := cs.Instr.(ssa.Value); isV {
						cfi := p.Info(cs.Caller)
						// the raft receiver as seen by the caller: the argument bound to the helper's parameter that base derives from
						cbase := base
						for pi, prm := range fn.Params {
							if base != nil && strings.HasPrefix(base.Key(), fi.Sym(prm).Key()) {
								cbase = cfi.Sym(callArgs(cs.Instr)[pi])
								if base.Key() != fi.Sym(prm).Key() {
									cbase = base
								}
							}
						}
						srcs = append(srcs, afterSrc{cv, cs.Caller, cbase})
					}
				}
				c.OkTrivial(rule+".d", construct, fnName(fn), site, "returned by an unexported helper; followed into its callers", "")
			case sk.Kind == "len" || sk.Kind == "read" || sk.Kind == "range":
				c.OkTrivial(rule+".d", construct, fnName(fn), site, "length / getter reads release nothing", "")
			case sk.Kind == "arg" && sk.Via == "elemof":
				// element passed to a getter (m.GetTo())
				call := sk.Instr.(*ssa.Call)
				callee := call.Common().StaticCallee()
				ok := callee != nil && p.IsPure(callee) && strings.HasPrefix(callee.Name(), "Get")
				c.Result(ok, rule+".d", construct, fnName(fn), site, "elements are only inspected through getters", fnName(callee))
			case sk.Kind == "field" && sk.Field == afterF && sk.Via == "base" && fn == send:
				c.OkTrivial(rule+".d", construct, fnName(fn), site, "the queue's own append", "")
			case sk.Kind == "field" && sk.Field == rdMsgsF && sk.Via == "elemof":
				// copied into Ready.Messages: only in sync mode and only for remote recipients
				f := fi.FactsAt(sk.Instr)
				elem := elemOfStoreAppend(fi, sk.Instr)
				okAsync := f.HasBool(func(s *Sym) bool { return s.K == KField && s.Fld == asyncF }, false) != nil
				if !okAsync && len(fn.Params) > 0 && fn.Signature.Recv() != nil {
					okAsync = p.Prove(fi, sk.Instr, []Req{ReqBool(FieldOf(fi.Sym(fn.Params[0]), asyncF), false)}).OK
				}
				okTo := elem != nil && f.ImpliesCmp(CallSym(getTo, elem), "!=", FieldOf(base, idF))
				c.Result(okAsync && okTo, rule+".d", "msgsAfterAppend element copied into Ready.Messages", fnName(fn), site, "!asyncStorageWrites && m.GetTo() != r.id (self-directed promises wait for Advance)", strings.Join(f.Describe(), "; "))
			case sk.Kind == "field" && sk.Field == stepsF && sk.Via == "elemof":
				f := fi.FactsAt(sk.Instr)
				elem := elemOfStoreAppend(fi, sk.Instr)
				if elem == nil {
					// a local accumulator stored at the end: the facts that matter are those at the append
					if ap, e := appendOfQueueElem(fi, fn, src.v); ap != nil {
						f = fi.FactsAt(ap)
						elem = e
					}
				}
				okAsync := f.HasBool(func(s *Sym) bool { return s.K == KField && s.Fld == asyncF }, false) != nil
				if !okAsync && len(fn.Params) > 0 && fn.Signature.Recv() != nil {
					// the mode test may sit in the caller of a helper
					okAsync = p.Prove(fi, sk.Instr, []Req{ReqBool(FieldOf(fi.Sym(fn.Params[0]), asyncF), false)}).OK
				}
				okTo := elem != nil && f.ImpliesCmp(CallSym(getTo, elem), "==", FieldOf(base, idF))
				c.Result(okAsync && okTo, rule+".d", "msgsAfterAppend element queued for Advance", fnName(fn), site, "!asyncStorageWrites && m.GetTo() == r.id", strings.Join(f.Describe(), "; "))
			case sk.Kind == "field" && sk.Field == respF && (sk.Via == "self" || sk.Via == "base"):
				// attached as Responses of a MsgStorageAppend addressed to the append thread
				okLit := false
				detail := ""
				st := sk.Instr.(*ssa.Store)
				if al, ok := rootOfAddr(st.Addr).(*ssa.Alloc); ok {
					for _, lit := range p.Lits(msgT) {
						if lit.Alloc != al {
							continue
						}
						tc, okc := lit.TypeConsts(p)
						to := lit.FieldSym(p, "To")
						okLit = okc && len(tc) == 1 && tc[0] == p.ConstVal("raftpb", "MsgStorageAppend") &&
							to != nil && to.K == KConst && to.C.ExactString() == fmt.Sprint(uint64(p.constU64("raft", "LocalAppendThread")))
						detail = fmt.Sprintf("type %v to %v", tc, to)
					}
				}
				c.Result(okLit, rule+".d", "msgsAfterAppend attached as Responses", fnName(fn), site, "Responses of a MsgStorageAppend addressed to LocalAppendThread", detail)
			default:
				c.Bad(rule+".d", construct, fnName(fn), site, "msgsAfterAppend is read only by Ready construction (sync copy / async Responses), acceptReady and HasReady", fmt.Sprintf("sink field=%v", sk.Field))
			}
		}
	}
	// (e) stepsOnAdvance: stepped only by Advance, which refuses async mode
	step := p.Method("raft", "raft", "Step")
	advance := p.Method("raft", "RawNode", "Advance")
	for _, ld := range p.FieldLoads(stepsF) {
		fn := ld.Parent()
		fi := p.Info(fn)
		for _, sk := range fi.ForwardSinks(ld) {
			site := p.site(sk.Instr)
			switch {
			case sk.Kind == "len" || sk.Kind == "read" || sk.Kind == "range":
			case sk.Kind == "field" && sk.Field == stepsF:
			case sk.Kind == "other" && sk.Via == "overwrite":
			case sk.Kind == "arg" && sk.Via == "elemof":
				call := sk.Instr.(ssa.CallInstruction)
				isStep := false
				for _, callee := range p.Callees(call) {
					if callee == step {
						isStep = true
					}
				}
				if !isStep {
					c.Bad(rule+".e", "stepsOnAdvance element passed to a call", fnName(fn), site, "queued self-messages are only stepped", "")
					continue
				}
				rn := derefLoc(fi.Sym(ld.X.(*ssa.FieldAddr).X))
				pr := p.Prove(fi, sk.Instr, []Req{ReqBool(FieldOf(rn, asyncF), false)})
				c.Result(pr.OK && fn == advance, rule+".e", "stepsOnAdvance delivered", fnName(fn), site, "only in Advance and only when !asyncStorageWrites", describeProof(pr), pr.Chain...)
			default:
				c.Bad(rule+".e", "use of stepsOnAdvance: "+sk.Kind+"/"+sk.Via, fnName(fn), site, "stepsOnAdvance is consumed only by Advance", "")
			}
		}
	}
	// (f) the async write request carries the state of the same Ready
	gRouteStorageAppend(c, rule)
	// (g) self-acknowledgement of appended entries goes through send
	appendEntry := p.Method("raft", "raft", "appendEntry")
	lappend := p.Method("raft", "raftLog", "append")
	if appendEntry != nil && lappend != nil {
		found := false
		for _, lit := range p.Lits(msgT) {
			if lit.Fn != appendEntry {
				continue
			}
			tc, ok := lit.TypeConsts(p)
			if !ok || len(tc) != 1 || tc[0] != P[0] {
				continue
			}
			afi := p.Info(appendEntry)
			r := afi.Sym(appendEntry.Params[0])
			to := lit.FieldSym(p, "To")
			idx := lit.FieldSym(p, "Index")
			ok2 := to != nil && to.Key() == FieldOf(r, idF).Key() && idx != nil && idx.K == KCall && idx.Fn == lappend
			c.Result(ok2, rule+".g", "leader self-acknowledgement", fnName(appendEntry), p.site(lit.Alloc), "MsgAppResp{To: r.id, Index: <result of raftLog.append>} (counted only once durable)", fmt.Sprintf("To <- %v, Index <- %v", to, idx))
			found = true
		}
		if !found {
			c.Bad(rule+".g", "leader self-acknowledgement", fnName(appendEntry), p.Pos(appendEntry.Pos()), "appendEntry acknowledges its own append with a MsgAppResp to itself", "no such literal")
		}
	}
}

func (p *Prog) constU64(pkg, name string) uint64 {
	cst := p.Const(pkg, name)
	if cst == nil {
		return 0
	}
	if u, ok := constantUint64(cst); ok {
		return u
	}
	return 0
}

// elemOfStoreAppend: for `F = append(F, x)` stored by st, the symbol of x.
// appendOfQueueElem: the builtin append in fn whose single appended element is an element of the
// queue value src (indexed or ranged), with that element's symbol.
func appendOfQueueElem(fi *FuncInfo, fn *ssa.Function, src ssa.Value) (ssa.Instruction, *Sym) {
	srcKey := fi.Sym(src).Key()
	var found ssa.Instruction
	var elem *Sym
	n := 0
	for _, b := range fn.Blocks {
		for _, in := range b.Instrs {
			call, ok := in.(*ssa.Call)
			if !ok || !fi.Live(in) {
				continue
			}
			_, elems, _, okA := appendParts(call)
			if !okA || len(elems) != 1 {
				continue
			}
			es := fi.Sym(elems[0])
			if es.K == KIndex && len(es.Args) == 2 && es.Args[0].Key() == srcKey {
				n++
				found, elem = in, es
			}
		}
	}
	if n != 1 {
		return nil, nil
	}
	return found, elem
}

func elemOfStoreAppend(fi *FuncInfo, in ssa.Instruction) *Sym {
	st, ok := in.(*ssa.Store)
	if !ok {
		return nil
	}
	_, elems, _, ok := appendParts(st.Val)
	if !ok || len(elems) != 1 {
		return nil
	}
	return fi.Sym(elems[0])
}

func gRouteStorageAppend(c *Check, rule string) {
	p := c.P
	msgT := p.Type("raftpb", "Message")
	asyncF := p.Field("raft", "RawNode", "asyncStorageWrites")
	sa := p.ConstVal("raftpb", "MsgStorageAppend")
	rdEntries := p.Field("raft", "Ready", "Entries")
	rdSnap := p.Field("raft", "Ready", "Snapshot")
	n := 0
	for _, lit := range p.Lits(msgT) {
		tc, ok := lit.TypeConsts(p)
		if !ok || len(tc) != 1 || tc[0] != sa {
			continue
		}
		n++
		fn := lit.Fn
		fi := p.Info(fn)
		site := p.site(lit.Alloc)
		// Entries <- rd.Entries
		ents := lit.FieldSym(p, "Entries")
		c.Result(ents != nil && ents.K == KField && ents.Fld == rdEntries, rule+".f", "MsgStorageAppend.Entries", fnName(fn), site, "Entries <- rd.Entries of the same Ready", fmt.Sprintf("%v", ents))
		for _, st := range lit.Stores["Snapshot"] {
			v := fi.Sym(st.Val)
			c.Result(v.K == KField && v.Fld == rdSnap, rule+".f", "MsgStorageAppend.Snapshot", fnName(fn), p.site(st), "Snapshot <- rd.Snapshot", v.Key())
		}
		for _, key := range []string{"Term", "Vote", "Commit"} {
			sts := lit.Stores[key]
			if len(sts) == 0 {
				c.Bad(rule+".f", "MsgStorageAppend."+key, fnName(fn), site, key+" is carried when the HardState changed", "never set")
				continue
			}
			for _, st := range sts {
				v := fi.PointeeOf(st.Val)
				// rd.GetTerm() on the embedded HardState of the Ready parameter
				ok := v.K == KCall && v.Fn != nil && v.Fn.Name() == "Get"+key && strings.Contains(v.Args[0].Key(), "HardState")
				c.Result(ok, rule+".f", "MsgStorageAppend."+key, fnName(fn), p.site(st), key+" <- rd.HardState."+key, v.Key())
			}
		}
		// callers: only under asyncStorageWrites
		for _, cs := range p.CallsTo(fn) {
			cfi := p.Info(cs.Caller)
			f := cfi.FactsAt(cs.Instr)
			ok := f.HasBool(func(s *Sym) bool { return s.K == KField && s.Fld == asyncF }, true) != nil
			c.Result(ok, rule+".f", "MsgStorageAppend built only in async mode", fnName(cs.Caller), p.site(cs.Instr), "asyncStorageWrites", strings.Join(f.Describe(), "; "))
		}
	}
	if n == 0 {
		c.Bad(rule+".f", "MsgStorageAppend literal", "-", "-", "the async write request is constructed somewhere", "none found")
	}
}

// C05 extras: MustSync, snapshot promise, restart from storage, globals.
// cSnapshotReply — what a follower acknowledges after a MsgSnap: its last index only when the
// snapshot was installed, otherwise only its commit index (never an unverified tail).
func cSnapshotReply(c *Check, rule string) {
	p := c.P
	handleSnapshot := p.Method("raft", "raft", "handleSnapshot")
	restore := p.Method("raft", "raft", "restore")
	lastIndex := p.Method("raft", "raftLog", "lastIndex")
	committedF := p.Field("raft", "raftLog", "committed")
	msgT := p.Type("raftpb", "Message")
	if handleSnapshot == nil || restore == nil || msgT == nil {
		return
	}
	fi := p.Info(handleSnapshot)
	for _, lit := range p.Lits(msgT) {
		if lit.Fn != handleSnapshot {
			continue
		}
		idx := lit.FieldSym(p, "Index")
		f := fi.FactsAt(lit.Alloc)
		tested := &Facts{FI: fi, Atoms: f.Tested}
		restored := tested.HasBool(isCallTo(restore), true) != nil
		notRestored := tested.HasBool(isCallTo(restore), false) != nil
		site := p.site(lit.Alloc)
		switch {
		case idx != nil && idx.K == KPhi:
			// one reply whose index was chosen in the two branches: decide per incoming value
			okAll := true
			var parts []string
			edges := phiEdges(fi, idx.V, lit.Alloc)
			for _, pe := range edges {
				es := fi.Sym(pe.val)
				switch {
				case es.K == KCall && es.Fn == lastIndex:
					okAll = okAll && pe.facts.HasBool(isCallTo(restore), true) != nil
				case es.K == KField && es.Fld == committedF:
					okAll = okAll && pe.facts.HasBool(isCallTo(restore), false) != nil
				default:
					okAll = false
				}
				parts = append(parts, es.Key())
			}
			c.Result(okAll && len(edges) > 0, rule, "snapshot reply (index chosen per outcome)", fnName(handleSnapshot), site, "lastIndex() where restore returned true, committed where it returned false", strings.Join(parts, " | "))
		case idx != nil && idx.K == KCall && idx.Fn == lastIndex:
			c.Result(restored, rule, "snapshot success reply", fnName(handleSnapshot), site, "acknowledges lastIndex() only after r.restore(s) returned true", strings.Join(f.Describe(), "; "))
		case idx != nil && idx.K == KField && idx.Fld == committedF:
			c.Result(notRestored, rule, "snapshot ignore reply", fnName(handleSnapshot), site, "acknowledges only the commit index when the snapshot was not installed", strings.Join(f.Describe(), "; "))
		default:
			c.Bad(rule, "snapshot reply", fnName(handleSnapshot), site, "Index <- lastIndex() (installed) or committed (ignored)", fmt.Sprintf("Index <- %v", idx))
		}
	}
}

// c05MustSync — C05.M: Ready.MustSync is exactly "entries, vote or term changed".
func c05MustSync(c *Check) {
	p := c.P
	mustSync := p.Func("raft", "MustSync")
	getVote := p.Method("raftpb", "HardState", "GetVote")
	getTerm := p.Method("raftpb", "HardState", "GetTerm")
	if mustSync != nil && getVote != nil && getTerm != nil {
		fi := p.Info(mustSync)
		st, prev, n := fi.Sym(mustSync.Params[0]), fi.Sym(mustSync.Params[1]), fi.Sym(mustSync.Params[2])
		spec := bfOr(bfCmp(n, "!=", constSym(0)),
			bfCmp(CallSym(getVote, st), "!=", CallSym(getVote, prev)),
			bfCmp(CallSym(getTerm, st), "!=", CallSym(getTerm, prev)))
		if code := p.ReturnFormula(mustSync); code != nil {
			ok, why := bfEquiv(code, spec)
			c.Result(ok, "C05.M", "return of MustSync", fnName(mustSync), p.Pos(mustSync.Pos()), "entsnum != 0 || vote changed || term changed", fmt.Sprintf("code: %s %s", code, why))
		} else {
			c.Undecided("C05.M", "return of MustSync", fnName(mustSync), p.Pos(mustSync.Pos()), "entsnum != 0 || vote changed || term changed", "function too complex to summarise")
		}
		// its use in Ready construction
		msF := p.Field("raft", "Ready", "MustSync")
		hardState := p.Method("raft", "raft", "hardState")
		prevHS := p.Field("raft", "RawNode", "prevHardSt")
		rdEntries := p.Field("raft", "Ready", "Entries")
		for _, s := range p.StoresTo(msF) {
			if s.Whole {
				continue
			}
			sfi := p.Info(s.Fn)
			v := sfi.Sym(s.Val)
			if v.K == KConst {
				continue // zero value in the literal
			}
			ok := v.K == KCall && v.Fn == mustSync && len(v.Args) == 3 &&
				v.Args[0].K == KCall && v.Args[0].Fn == hardState &&
				v.Args[1].K == KField && v.Args[1].Fld == prevHS &&
				v.Args[2].K == KBuiltin && v.Args[2].Name == "len" && v.Args[2].Args[0].K == KField && v.Args[2].Args[0].Fld == rdEntries
			c.Result(ok, "C05.M", "Ready.MustSync", fnName(s.Fn), p.site(s.Instr), "MustSync(r.hardState(), rn.prevHardSt, len(rd.Entries))", v.Key())
		}
	}
}

func c05Extras(c *Check) {
	p := c.P
	c05MustSync(c)
	// C05.S snapshot promise
	cSnapshotReply(c, "C05.S")
	appliedSnap := p.Method("raft", "raft", "appliedSnap")
	step := p.Method("raft", "raft", "Step")
	getType := p.Method("raftpb", "Message", "GetType")
	sar := p.ConstVal("raftpb", "MsgStorageAppendResp")
	if appliedSnap != nil && step != nil {
		for _, cs := range p.CallsTo(appliedSnap) {
			cfi := p.Info(cs.Caller)
			if cs.Caller != step {
				c.Bad("C05.S", "caller of appliedSnap", fnName(cs.Caller), p.site(cs.Instr), "only Step on a storage acknowledgement", "")
				continue
			}
			m := cfi.Sym(step.Params[1])
			pr := p.Prove(cfi, cs.Instr, []Req{ReqCmp(CallSym(getType, m), "==", constSym(sar))})
			c.Result(pr.OK, "C05.S", "appliedSnap under MsgStorageAppendResp", fnName(cs.Caller), p.site(cs.Instr), "m.GetType() == MsgStorageAppendResp", describeProof(pr), pr.Chain...)
		}
	}
	gGlobals(c, "C05.R")
	c05Restart(c)
	// C05.E: what the application is asked to persist is exactly the unstable state
	rdEntries := p.Field("raft", "Ready", "Entries")
	rdSnap := p.Field("raft", "Ready", "Snapshot")
	nextEnts := p.Method("raft", "raftLog", "nextUnstableEnts")
	nextSnap := p.Method("raft", "raftLog", "nextUnstableSnapshot")
	for _, st := range p.StoresTo(rdEntries) {
		if st.Whole {
			continue
		}
		fi := p.Info(st.Fn)
		v := fi.Sym(st.Val)
		if v.K == KNil {
			continue
		}
		c.Result(v.K == KCall && v.Fn == nextEnts, "C05.E", "store Ready.Entries", fnName(st.Fn), p.site(st.Instr), "Entries <- r.raftLog.nextUnstableEnts() (everything not yet handed to storage)", sanitizeKey(v.Key()))
	}
	for _, st := range p.StoresTo(rdSnap) {
		if st.Whole {
			continue
		}
		fi := p.Info(st.Fn)
		v := fi.Sym(st.Val)
		if v.K == KNil {
			continue
		}
		c.Result(v.K == KCall && v.Fn == nextSnap, "C05.E", "store Ready.Snapshot", fnName(st.Fn), p.site(st.Instr), "Snapshot <- r.raftLog.nextUnstableSnapshot()", sanitizeKey(v.Key()))
	}
	if acceptReady := p.Method("raft", "RawNode", "acceptReady"); acceptReady != nil {
		afi := p.Info(acceptReady)
		acceptUnstable := p.Method("raft", "raftLog", "acceptUnstable")
		ok := false
		for _, ci := range p.CallsIn(acceptReady, acceptUnstable) {
			if mustPass(afi, ci) {
				ok = true
			}
		}
		c.Result(ok, "C05.E", "acceptReady marks the handed-out state as in progress", fnName(acceptReady), p.Pos(acceptReady.Pos()), "raftLog.acceptUnstable() on every path", "")
	}
	storageAppendCarries(c)
	needAppendFormula(c, "C05.W")
}

// storageAppendCarries — C05.E (async storage writes): MsgStorageAppend carries everything the
// Ready asks to persist: the entries always, the hard state whenever the Ready has one, the
// snapshot whenever the Ready has one. Its Responses release the promises, so a field that is
// not carried is acknowledged without ever being written.
func storageAppendCarries(c *Check) {
	p := c.P
	nsam := p.Func("raft", "newStorageAppendMsg")
	msgT := p.Type("raftpb", "Message")
	rdEntries := p.Field("raft", "Ready", "Entries")
	rdSnap := p.Field("raft", "Ready", "Snapshot")
	rdHS := p.Field("raft", "Ready", "HardState")
	isEmptySnap := p.Func("raft", "IsEmptySnap")
	isEmptyHS := p.Func("raft", "IsEmptyHardState")
	if nsam == nil || msgT == nil || rdEntries == nil || rdSnap == nil || isEmptySnap == nil || isEmptyHS == nil || rdHS == nil {
		return
	}
	fi := p.Info(nsam)
	rd := fi.Sym(nsam.Params[1])
	var msgAlloc ssa.Value
	for _, lit := range p.Lits(msgT) {
		if lit.Fn != nsam {
			continue
		}
		msgAlloc = lit.Alloc
		es := lit.FieldSym(p, "Entries")
		ok := es != nil && es.Key() == FieldOf(rd, rdEntries).Key()
		c.Result(ok, "C05.E", "MsgStorageAppend.Entries", fnName(nsam), p.site(lit.Alloc), "Entries <- rd.Entries, unconditionally", fmt.Sprint(es))
	}
	if msgAlloc == nil {
		c.Bad("C05.E", "MsgStorageAppend literal", fnName(nsam), p.Pos(nsam.Pos()), "newStorageAppendMsg builds the message", "no literal found")
		return
	}
	type carried struct {
		field  string
		guard  *BF
		gtext  string
		source func(v *Sym) bool
	}
	hsGuard := bfNot(bfSym(CallSym(isEmptyHS, FieldOf(rd, rdHS))))
	fromRd := func(getter string) func(v *Sym) bool {
		return func(v *Sym) bool {
			k := v.Key()
			return strings.Contains(k, getter) && strings.Contains(k, rd.Key())
		}
	}
	want := []carried{
		{"Snapshot", bfNot(bfSym(CallSym(isEmptySnap, FieldOf(rd, rdSnap)))), "!IsEmptySnap(rd.Snapshot)", func(v *Sym) bool { return v.Key() == FieldOf(rd, rdSnap).Key() }},
		{"Term", hsGuard, "!IsEmptyHardState(rd.HardState)", fromRd("GetTerm")},
		{"Vote", hsGuard, "!IsEmptyHardState(rd.HardState)", fromRd("GetVote")},
		{"Commit", hsGuard, "!IsEmptyHardState(rd.HardState)", fromRd("GetCommit")},
	}
	for _, w := range want {
		found := false
		for _, in := range p.liveInstrsOf(nsam) {
			st, ok := in.(*ssa.Store)
			if !ok {
				continue
			}
			fa, ok := st.Addr.(*ssa.FieldAddr)
			if !ok || fa.X != msgAlloc || derefStruct(fa.X.Type()).Field(fa.Field).Name() != w.field {
				continue
			}
			var v *Sym
			if w.field == "Snapshot" {
				v = fi.Sym(st.Val)
			} else {
				v = fi.PointeeOf(st.Val)
			}
			if v.K == KNil {
				continue
			}
			found = true
			okV := w.source(v)
			pf, okP := fi.PathFormula(st, -1)
			okG := false
			why := "path formula too large"
			if okP {
				okG, why = bfImplies(w.guard, pf)
			}
			c.Result(okV && okG, "C05.E", "MsgStorageAppend."+w.field, fnName(nsam), p.site(st), w.field+" <- the Ready's value whenever "+w.gtext, fmt.Sprintf("value %s; %s", sanitizeKey(v.Key()), shorten(why, 400)))
		}
		if !found {
			c.Bad("C05.E", "MsgStorageAppend."+w.field, fnName(nsam), p.Pos(nsam.Pos()), w.field+" <- the Ready's value whenever "+w.gtext, "never set")
		}
	}
}

// c05Restart: newRaft takes term/vote/commit only from Storage.InitialState via loadState.
func c05Restart(c *Check) {
	p := c.P
	newRaft := p.Func("raft", "newRaft")
	loadState := p.Method("raft", "raft", "loadState")
	if newRaft == nil || loadState == nil {
		return
	}
	fi := p.Info(newRaft)
	n := 0
	for _, ci := range p.CallsIn(newRaft, loadState) {
		n++
		arg := fi.Sym(callArgs(ci)[1])
		ok := arg.K == KExtract && arg.Idx == 0 && arg.Args[0].K == KCall && arg.Args[0].Meth != nil && arg.Args[0].Meth.Name() == "InitialState"
		c.Result(ok, "C05.R", "loadState argument in newRaft", fnName(newRaft), p.site(ci), "hard state <- c.Storage.InitialState()", arg.Key())
	}
	c.Result(n == 1, "C05.R", "newRaft loads the persisted hard state", fnName(newRaft), p.Pos(newRaft.Pos()), "exactly one loadState call", fmt.Sprint(n))
	for _, cs := range p.CallsTo(loadState) {
		c.Result(cs.Caller == newRaft, "C05.R", "caller of loadState", fnName(cs.Caller), p.site(cs.Instr), "only newRaft", "")
	}
	loadStateComplete(c, "C05.R")
	// the raft literal in newRaft does not set Term/Vote (they come from loadState only)
	termF, voteF := p.Field("raft", "raft", "Term"), p.Field("raft", "raft", "Vote")
	for _, f := range []*types.Var{termF, voteF} {
		for _, st := range p.StoresTo(f) {
			if st.Fn == newRaft {
				c.Bad("C05.R", "newRaft sets raft."+f.Name(), fnName(newRaft), p.site(st.Instr), "Term/Vote of a new instance come from Storage only", "")
			}
		}
	}
}

// loadStateComplete: every normal return of loadState has restored all three persisted fields
// (term, vote, commit) from the HardState it was given — none of them conditionally.
func loadStateComplete(c *Check, rule string) {
	p := c.P
	loadState := p.Method("raft", "raft", "loadState")
	if loadState == nil {
		return
	}
	fi := p.Info(loadState)
	want := []struct {
		fld    *types.Var
		getter string
	}{
		{p.Field("raft", "raft", "Term"), "GetTerm"},
		{p.Field("raft", "raft", "Vote"), "GetVote"},
		{p.Field("raft", "raftLog", "committed"), "GetCommit"},
	}
	hs := fi.Sym(loadState.Params[1])
	for _, w := range want {
		ok := false
		for _, st := range p.StoresTo(w.fld) {
			if st.Fn != loadState || st.Whole {
				continue
			}
			v := fi.Sym(st.Val)
			if v.K == KCall && v.Fn != nil && v.Fn.Name() == w.getter && len(v.Args) == 1 && v.Args[0].Key() == hs.Key() && mustPass(fi, st.Instr) {
				ok = true
			}
		}
		c.Result(ok, rule, "loadState restores "+w.fld.Name(), fnName(loadState), p.Pos(loadState.Pos()), w.fld.Name()+" <- state."+w.getter+"() on every path that returns (a restarted node resumes with exactly what it persisted)", "")
	}
}

// gGlobals — E-GLOBALS: no package-level variable of the analysed packages is
// written after initialisation, except the listed ones.
func gGlobals(c *Check, rule string) {
	p := c.P
	type gw struct {
		g  *ssa.Global
		fn *ssa.Function
		in ssa.Instruction
	}
	var ws []gw
	for _, fn := range p.RuleFuncs {
		if fn.Name() == "init" || strings.HasPrefix(fn.Name(), "init#") {
			continue
		}
		for _, in := range p.liveInstrsOf(fn) {
			switch x := in.(type) {
			case *ssa.Store:
				if g, ok := rootOfAddr(x.Addr).(*ssa.Global); ok {
					ws = append(ws, gw{g, fn, in})
				}
			case *ssa.MapUpdate:
				if ld, ok := x.Map.(*ssa.UnOp); ok {
					if g, ok := ld.X.(*ssa.Global); ok {
						ws = append(ws, gw{g, fn, in})
					}
				}
			}
		}
	}
	sort.Slice(ws, func(i, j int) bool { return ws[i].in.Pos() < ws[j].in.Pos() })
	nGlob := 0
	for _, sp := range []string{"raft", "confchange", "quorum", "tracker"} {
		for _, m := range p.SPkgs[sp].Members {
			if _, ok := m.(*ssa.Global); ok {
				nGlob++
			}
		}
	}
	for _, w := range ws {
		// the logger variable, guarded by its mutex, is not read into protocol state
		allowed := w.g.Name() == "raftLogger" && (w.fn.Name() == "SetLogger" || w.fn.Name() == "ResetDefaultLogger")
		c.Result(allowed, rule, "write to package variable "+w.g.Name(), fnName(w.fn), p.site(w.in), "no mutable package-level state besides the logger", "")
	}
	c.Ok(rule, "package-level variables scanned", "-", "-", "no mutable package-level state besides the logger", fmt.Sprintf("%d globals, %d post-init writes", nGlob, len(ws)))
}

// nodeLoop — the channel-based Node wrapper hands out one Ready at a time and
// advances only on the application's acknowledgement (sync mode of C05/C08 for
// users of Node rather than RawNode).
func nodeLoop(c *Check) {
	p := c.P
	run := p.Method("raft", "node", "run")
	ready := p.Method("raft", "RawNode", "readyWithoutAccept")
	accept := p.Method("raft", "RawNode", "acceptReady")
	advance := p.Method("raft", "RawNode", "Advance")
	asyncF := p.Field("raft", "RawNode", "asyncStorageWrites")
	if run == nil || ready == nil || accept == nil || advance == nil {
		return
	}
	fi := p.Info(run)
	// the select and its states
	var sel *ssa.Select
	for _, in := range p.liveInstrsOf(run) {
		if s, ok := in.(*ssa.Select); ok && len(s.States) > 4 {
			sel = s
		}
	}
	if sel == nil {
		c.Bad("C05.N", "node.run select loop", fnName(run), p.Pos(run.Pos()), "the Node loop multiplexes its channels in one select", "not found")
		return
	}
	armOf := func(in ssa.Instruction) int {
		f := fi.FactsAt(in)
		for _, a := range f.Atoms {
			if a.K == AEq && len(a.L.T) == 1 {
				for k, s := range a.L.S {
					if s.K == KExtract && s.Idx == 0 && s.Args[0].V == ssa.Value(sel) && a.L.T[k] == 1 {
						return int(-a.L.K)
					}
				}
			}
		}
		return -1
	}
	// which local channel variables gate the Ready and Advance arms
	var advPhi ssa.Value
	for _, ci := range p.CallsIn(run, advance) {
		k := armOf(ci)
		ok := k >= 0 && k < len(sel.States) && sel.States[k].Dir == types.RecvOnly
		if ok {
			// the channel is the node's advance channel (possibly through the local nil-able copy)
			ok = false
			seen := map[ssa.Value]bool{}
			var look func(v ssa.Value, d int)
			look = func(v ssa.Value, d int) {
				if v == nil || d > 4 || seen[v] {
					return
				}
				seen[v] = true
				if ph, isPhi := v.(*ssa.Phi); isPhi {
					for _, e := range ph.Edges {
						look(e, d+1)
					}
					return
				}
				if s := fi.Sym(v); s.K == KField && s.Fld.Name() == "advancec" {
					ok = true
				}
			}
			look(sel.States[k].Chan, 0)
		}
		if ok {
			advPhi = sel.States[k].Chan
		}
		c.Result(ok, "C05.N", "Node advances only on the application's acknowledgement", fnName(run), p.site(ci), "rn.Advance is called only in the select arm that received from the advance channel", fmt.Sprintf("arm %d", k))
	}
	for _, ci := range p.CallsIn(run, accept) {
		k := armOf(ci)
		ok := k >= 0 && k < len(sel.States) && sel.States[k].Dir == types.SendOnly
		okSame := ok && sel.States[k].Send == callArgs(ci)[1]
		c.Result(ok && okSame, "C05.N", "Node accepts a Ready only once it was delivered", fnName(run), p.site(ci), "rn.acceptReady(rd) only in the arm that sent that same rd to the application", fmt.Sprintf("arm %d", k))
		// in sync mode the advance channel is armed right after
		armed := false
		seenPhi := map[ssa.Value]bool{}
		var look func(v ssa.Value, d int)
		look = func(v ssa.Value, d int) {
			if v == nil || d > 4 || seenPhi[v] {
				return
			}
			seenPhi[v] = true
			if ph, ok := v.(*ssa.Phi); ok {
				for _, e := range ph.Edges {
					look(e, d+1)
				}
				return
			}
			s := fi.Sym(v)
			if s.K == KField && s.Fld.Name() == "advancec" {
				armed = true
			}
		}
		look(advPhi, 0)
		_ = asyncF
		c.Result(armed, "C05.N", "Node waits for Advance after handing out a Ready", fnName(run), p.site(ci), "the advance channel is enabled after acceptReady (sync mode)", "")
	}
	// a new Ready is computed only when no Advance is outstanding
	for _, ci := range p.CallsIn(run, ready) {
		f := fi.FactsAt(ci)
		ok := false
		for _, a := range f.Atoms {
			if a.K == ASame && !a.Neg {
				var other *Sym
				if a.S.K == KNil {
					other = a.S2
				} else if a.S2.K == KNil {
					other = a.S
				}
				if other != nil && advPhi != nil && other.V == advPhi {
					ok = true
				}
			}
		}
		c.Result(ok, "C05.N", "Node computes a new Ready only when none is outstanding", fnName(run), p.site(ci), "advancec == nil (the previous Ready was advanced) before readyWithoutAccept()", strings.Join(f.Describe(), "; "))
	}
}

func shorten(s string, n int) string {
	if len(s) <= n {
		return s
	}
	return s[:n] + " …"
}
