package main

import (
	"fmt"
	"go/types"
	"sort"
	"strings"

	"golang.org/x/tools/go/ssa"
)

// C11 — ReadIndex (ReadOnlySafe).
func c11ReadIndex(c *Check) {
	p := c.P
	readStatesF := p.Field("raft", "raft", "readStates")
	readOnlyF := p.Field("raft", "raft", "readOnly")
	optionF := p.Field("raft", "readOnly", "option")
	acksF := p.Field("raft", "readOnly", "acks")
	confirmedF := p.Field("raft", "readOnly", "confirmedReads")
	unconfF := p.Field("raft", "readOnly", "unconfirmedReads")
	committedF := p.Field("raft", "raftLog", "committed")
	raftLogF := p.Field("raft", "raft", "raftLog")
	termF := p.Field("raft", "raft", "Term")
	trkF := p.Field("raft", "raft", "trk")
	votersF := p.Field("tracker", "Config", "Voters")
	idF := p.Field("raft", "raft", "id")
	rsIndex := p.Field("raft", "ReadState", "Index")
	rsCtx := p.Field("raft", "ReadState", "RequestCtx")
	rirReq := p.Field("raft", "readIndexRequest", "req")
	rirIdx := p.Field("raft", "readIndexRequest", "index")
	respond := p.Method("raft", "raft", "responseToReadIndexReq")
	sendResp := p.Func("raft", "sendMsgReadIndexResponse")
	committedInTerm := p.Method("raft", "raft", "committedEntryInCurrentTerm")
	isSingleton := p.Method("tracker", "ProgressTracker", "IsSingleton")
	maybeAdvance := p.Method("raft", "readOnly", "maybeAdvance")
	addRequest := p.Method("raft", "readOnly", "addRequest")
	recvAck := p.Method("raft", "readOnly", "recvAck")
	heartbeatCtx := p.Method("raft", "readOnly", "heartbeatCtx")
	bcastHeartbeat := p.Method("raft", "raft", "bcastHeartbeat")
	newReadOnly := p.Func("raft", "newReadOnly")
	reset := p.Method("raft", "raft", "reset")
	stepFollower := p.Func("raft", "stepFollower")
	stepLeader := p.Func("raft", "stepLeader")
	handleHeartbeat := p.Method("raft", "raft", "handleHeartbeat")
	getEntries := p.Method("raftpb", "Message", "GetEntries")
	getIndex := p.Method("raftpb", "Message", "GetIndex")
	getData := p.Method("raftpb", "Entry", "GetData")
	getContext := p.Method("raftpb", "Message", "GetContext")
	getFrom := p.Method("raftpb", "Message", "GetFrom")
	getType := p.Method("raftpb", "Message", "GetType")
	safe := p.ConstVal("raft", "ReadOnlySafe")
	lease := p.ConstVal("raft", "ReadOnlyLeaseBased")
	msgT := p.Type("raftpb", "Message")
	if readStatesF == nil || respond == nil || sendResp == nil || maybeAdvance == nil || recvAck == nil {
		return
	}
	// C11.W: sources of read states
	for _, st := range p.StoresTo(readStatesF) {
		if st.Fresh || st.Whole {
			continue
		}
		fi := p.Info(st.Fn)
		site := p.site(st.Instr)
		v := fi.Sym(st.Val)
		if v.K == KNil {
			c.Ok("C11.W", "clear raft.readStates", fnName(st.Fn), site, "read states are handed out once", "")
			continue
		}
		_, elems, spread, ok := appendParts(st.Val)
		if !ok || spread != nil || len(elems) != 1 {
			c.Bad("C11.W", "store raft.readStates", fnName(st.Fn), site, "readStates = append(readStates, ReadState{...})", v.Key())
			continue
		}
		rs := fi.Sym(elems[0])
		idx := resimplify(FieldOf(rs, rsIndex))
		ctx := resimplify(FieldOf(rs, rsCtx))
		// RequestCtx <- X.GetEntries()[0].GetData() for one message X
		okCtx := ctx.K == KCall && ctx.Fn == getData && ctx.Args[0].K == KIndex && ctx.Args[0].Args[0].K == KCall && ctx.Args[0].Args[0].Fn == getEntries
		var msg *Sym
		if okCtx {
			msg = ctx.Args[0].Args[0].Args[0]
			z, _ := constInt64(ctx.Args[0].Args[1].C)
			okCtx = ctx.Args[0].Args[1].K == KConst && z == 0
		}
		c.Result(okCtx, "C11.W", "ReadState.RequestCtx", fnName(st.Fn), site, "RequestCtx <- <request>.Entries[0].Data", ctx.Key())
		if msg == nil {
			continue
		}
		switch {
		case st.Fn == respond:
			// index is the parameter supplied by the caller together with req
			okI := idx.K == KParam && msg.K == KParam
			c.Result(okI, "C11.W", "ReadState.Index (local request)", fnName(st.Fn), site, "Index <- the readIndex computed for this same request", idx.Key())
		default:
			okI := idx.K == KCall && idx.Fn == getIndex && idx.Args[0].Key() == msg.Key()
			c.Result(okI, "C11.W", "ReadState.Index (forwarded response)", fnName(st.Fn), site, "Index and RequestCtx come from the same MsgReadIndexResp", idx.Key())
			pr := p.Prove(fi, st.Instr, []Req{ReqCmp(CallSym(getType, msg), "==", constSym(p.ConstVal("raftpb", "MsgReadIndexResp")))})
			c.Result(pr.OK && st.Fn == stepFollower, "C11.W", "forwarded read state only from MsgReadIndexResp", fnName(st.Fn), site, "stepFollower arm MsgReadIndexResp", describeProof(pr), pr.Chain...)
		}
	}
	// C11.Q: no answer without a quorum round (or singleton / lease mode)
	type respSite struct {
		cs         CallSite
		iReq, iIdx int
	}
	var respSites []respSite
	for _, cs := range p.CallsTo(respond) {
		respSites = append(respSites, respSite{cs, 1, 2})
	}
	for si := 0; si < len(respSites) && si < 64; si++ {
		cs := respSites[si].cs
		fi := p.Info(cs.Caller)
		site := p.site(cs.Instr)
		args := callArgs(cs.Instr)
		r := fi.Sym(args[0])
		req := fi.Sym(args[respSites[si].iReq])
		ri := fi.Sym(args[respSites[si].iIdx])
		// a wrapper that forwards its own (req, index) parameters: classified at its callers
		if req.K == KParam && ri.K == KParam && cs.Caller != respond {
			jr, ji := -1, -1
			for pi, prm := range cs.Caller.Params {
				if ssa.Value(prm) == req.V {
					jr = pi
				}
				if ssa.Value(prm) == ri.V {
					ji = pi
				}
			}
			if jr >= 0 && ji >= 0 && len(p.CallsTo(cs.Caller)) > 0 {
				for _, cs2 := range p.CallsTo(cs.Caller) {
					respSites = append(respSites, respSite{cs2, jr, ji})
				}
				c.OkTrivial("C11.Q", "read-index response wrapper", fnName(cs.Caller), site, "forwards its (request, index) parameters; classified at its callers", "")
				continue
			}
		}
		direct := ri.K == KField && ri.Fld == committedF
		if direct {
			f := fi.FactsAt(cs.Instr)
			single := f.HasBool(isCallTo(isSingleton), true) != nil
			leaseMode := f.ImpliesCmp(FieldOf(FieldOf(r, readOnlyF), optionF), "==", constSym(lease))
			c.Result(single || leaseMode, "C11.Q", "read answered from the local commit index", fnName(cs.Caller), site, "only when the node is the sole voter or ReadOnlyLeaseBased is configured", strings.Join(f.Describe(), "; "))
			continue
		}
		// released by a quorum of heartbeat acks: (req,index) of one element returned by maybeAdvance(r.trk.Voters)
		okSrc := false
		var elem *Sym
		if ri.K == KField && ri.Fld == rirIdx && req.K == KField && req.Fld == rirReq && ri.Args[0].Key() == req.Args[0].Key() {
			elem = ri.Args[0]
		}
		if elem != nil && elem.K == KIndex {
			src := elem.Args[0]
			if src.K == KCall && src.Fn == maybeAdvance {
				cfg := src.Args[1]
				okSrc = cfg.K == KField && cfg.Fld == votersF && strings.HasPrefix(cfg.Key(), FieldOf(r, trkF).Key())
			}
		}
		c.Result(okSrc, "C11.Q", "read answered after a quorum of acknowledgements", fnName(cs.Caller), site, "(req, index) <- one element of readOnly.maybeAdvance(r.trk.Voters)", fmt.Sprintf("req=%s index=%s", req, ri))
	}
	// IsSingleton formula
	if isSingleton != nil {
		ifi := p.Info(isSingleton)
		pt := ifi.Sym(isSingleton.Params[0])
		v := FieldOf(FieldOf(pt, p.Field("tracker", "ProgressTracker", "Config")), votersF)
		spec := bfAnd(bfCmp(&Sym{K: KBuiltin, Name: "len", Args: []*Sym{indexSym(v, 0)}}, "==", constSym(1)),
			bfCmp(&Sym{K: KBuiltin, Name: "len", Args: []*Sym{indexSym(v, 1)}}, "==", constSym(0)))
		for _, ret := range returnsOf(ifi) {
			code := ifi.valueBF(ifi.RetVal(ret, 0), 0)
			ok, why := bfEquiv(code, spec)
			c.Result(ok, "C11.Q", "IsSingleton", fnName(isSingleton), p.site(ret), "len(Voters[0]) == 1 && len(Voters[1]) == 0", code.String()+" "+why)
		}
	}
	// C11.T: own-term commit before serving reads
	for _, cs := range p.CallsTo(sendResp) {
		fi := p.Info(cs.Caller)
		r := fi.Sym(callArgs(cs.Instr)[0])
		pr := p.Prove(fi, cs.Instr, []Req{ReqBool(CallSym(committedInTerm, r), true)})
		c.Result(pr.OK, "C11.T", "read served only after an own-term commit", fnName(cs.Caller), p.site(cs.Instr), "r.committedEntryInCurrentTerm()", describeProof(pr), pr.Chain...)
	}
	if committedInTerm != nil {
		cfi := p.Info(committedInTerm)
		r := cfi.Sym(committedInTerm.Params[0])
		for _, ret := range returnsOf(cfi) {
			v := cfi.RetSym(ret, 0)
			ok := v.K == KBin && v.Name == "==" && (v.Args[1].Key() == FieldOf(r, termF).Key() || v.Args[0].Key() == FieldOf(r, termF).Key()) &&
				strings.Contains(v.Key(), ".term("+FieldOf(FieldOf(r, raftLogF), committedF).Key()+")")
			c.Result(ok, "C11.T", "committedEntryInCurrentTerm", fnName(committedInTerm), p.site(ret), "term(committed) == r.Term", v.Key())
		}
	}
	// C11.O: request recorded before the heartbeat round that confirms it
	sfi := p.Info(sendResp)
	{
		r := sfi.Sym(sendResp.Params[0])
		m := sfi.Sym(sendResp.Params[1])
		var add, ack, bc ssa.Instruction
		for _, ci := range p.CallsIn(sendResp, addRequest) {
			a := callArgs(ci)
			if sfi.Sym(a[1]).Key() == FieldOf(FieldOf(r, raftLogF), committedF).Key() && sfi.Sym(a[2]).Key() == m.Key() {
				add = ci
			}
		}
		for _, ci := range p.CallsIn(sendResp, recvAck) {
			a := callArgs(ci)
			ctx := sfi.Sym(a[2])
			if sfi.Sym(a[1]).Key() == FieldOf(r, idF).Key() && ctx.K == KCall && ctx.Fn == heartbeatCtx {
				ack = ci
			}
		}
		for _, ci := range p.CallsIn(sendResp, bcastHeartbeat) {
			bc = ci
		}
		ok := add != nil && ack != nil && bc != nil && sfi.InstrDominates(add, ack) && sfi.InstrDominates(ack, bc)
		if ok {
			// the ack's context is computed after the request was added
			ctxCall := sfi.Sym(callArgs(ack.(ssa.CallInstruction))[2]).V.(ssa.Instruction)
			ok = sfi.InstrDominates(add, ctxCall)
		}
		okMode := false
		if bc != nil {
			f := sfi.FactsAt(bc)
			okMode = f.ImpliesCmp(FieldOf(FieldOf(r, readOnlyF), optionF), "==", constSym(safe))
		}
		c.Result(ok && okMode, "C11.O", "ReadOnlySafe: request, self-ack, then heartbeat", fnName(sendResp), p.Pos(sendResp.Pos()), "addRequest(committed, m) ≺ recvAck(r.id, heartbeatCtx()) ≺ bcastHeartbeat()", fmt.Sprintf("add=%v ack=%v bcast=%v", add != nil, ack != nil, bc != nil))
	}
	// heartbeatCtx encodes confirmedReads + len(unconfirmedReads)
	if heartbeatCtx != nil {
		hfi := p.Info(heartbeatCtx)
		ro := hfi.Sym(heartbeatCtx.Params[0])
		found := false
		for _, in := range p.liveInstrsOf(heartbeatCtx) {
			call, ok := in.(*ssa.Call)
			if !ok {
				continue
			}
			callee := call.Common().StaticCallee()
			if callee == nil || callee.Name() != "PutUint64" {
				continue
			}
			a := callArgs(call)
			v := hfi.Sym(a[len(a)-1])
			d := LinOf(v)
			d.add(LinOf(FieldOf(ro, confirmedF)), -1)
			d.add(LinOf(&Sym{K: KBuiltin, Name: "len", Args: []*Sym{FieldOf(ro, unconfF)}}), -1)
			found = true
			c.Result(len(d.T) == 0 && d.K == 0, "C11.O", "heartbeat context value", fnName(heartbeatCtx), p.site(in), "position = confirmedReads + len(unconfirmedReads) (covers every request queued so far)", v.Key())
		}
		c.Result(found, "C11.O", "heartbeat context is encoded", fnName(heartbeatCtx), p.Pos(heartbeatCtx.Pos()), "PutUint64 of the read position", "")
	}
	// C11.E: echo and ack bookkeeping
	if handleHeartbeat != nil {
		hfi := p.Info(handleHeartbeat)
		m := hfi.Sym(handleHeartbeat.Params[1])
		hbResp := p.ConstVal("raftpb", "MsgHeartbeatResp")
		for _, lit := range p.Lits(msgT) {
			tc, ok := lit.TypeConsts(p)
			if !ok || len(tc) != 1 || tc[0] != hbResp {
				continue
			}
			ctx := lit.FieldSym(p, "Context")
			okE := lit.Fn == handleHeartbeat && ctx != nil && ctx.Key() == CallSym(getContext, m).Key()
			c.Result(okE, "C11.E", "MsgHeartbeatResp echoes the context", fnName(lit.Fn), p.site(lit.Alloc), "Context <- m.GetContext() unchanged", fmt.Sprintf("%v", ctx))
		}
	}
	for _, cs := range p.CallsTo(recvAck) {
		if cs.Caller == sendResp {
			continue
		}
		fi := p.Info(cs.Caller)
		site := p.site(cs.Instr)
		a := callArgs(cs.Instr)
		from, ctx := fi.Sym(a[1]), fi.Sym(a[2])
		okArgs := cs.Caller == stepLeader && from.K == KCall && from.Fn == getFrom && ctx.K == KCall && ctx.Fn == getContext && from.Args[0].Key() == ctx.Args[0].Key()
		c.Result(okArgs, "C11.E", "recvAck arguments", fnName(cs.Caller), site, "recvAck(m.From, m.Context) of one heartbeat response", fmt.Sprintf("%s, %s", from, ctx))
		if okArgs {
			m := from.Args[0]
			ro := fi.Sym(a[0])
			pr := p.Prove(fi, cs.Instr, []Req{
				ReqCmp(CallSym(getType, m), "==", constSym(p.ConstVal("raftpb", "MsgHeartbeatResp"))),
				ReqCmp(FieldOf(ro, optionF), "==", constSym(safe)),
			})
			c.Result(pr.OK, "C11.E", "acks counted only from heartbeat responses in Safe mode", fnName(cs.Caller), site, "m.GetType() == MsgHeartbeatResp && option == ReadOnlySafe", describeProof(pr), pr.Chain...)
		}
	}
	// recvAck stores max(old, decoded)
	rfi := p.Info(recvAck)
	nU := 0
	for _, in := range p.liveInstrsOf(recvAck) {
		mu, ok := in.(*ssa.MapUpdate)
		if !ok {
			continue
		}
		nU++
		ro := rfi.Sym(recvAck.Params[0])
		ms := rfi.Sym(mu.Map)
		v := rfi.Sym(mu.Value)
		okM := ms.K == KField && ms.Fld == acksF
		okV := v.K == KBuiltin && v.Name == "max"
		if okV {
			hasOld := false
			for _, a := range v.Args {
				if a.K == KIndex && a.Args[0].Key() == FieldOf(ro, acksF).Key() && a.Args[1].Key() == rfi.Sym(mu.Key).Key() {
					hasOld = true
				}
			}
			okV = hasOld
		} else if v.K == KPhi {
			// hand-written compare-select: every incoming value is >= the stored acknowledgement
			oldS := &Sym{K: KIndex, Args: []*Sym{FieldOf(ro, acksF), rfi.Sym(mu.Key)}}
			edges := phiEdges(rfi, v.V, mu)
			okV = len(edges) > 0
			for _, pe := range edges {
				es := rfi.Sym(pe.val)
				if es.Key() != oldS.Key() && !pe.facts.ImpliesCmp(es, ">=", oldS) {
					okV = false
				}
			}
		}
		c.Result(okM && okV, "C11.E", "recvAck never regresses an acknowledgement", fnName(recvAck), p.site(mu), "acks[from] = max(acks[from], decoded)", v.Key())
	}
	c.Result(nU >= 1, "C11.E", "recvAck update site", fnName(recvAck), p.Pos(recvAck.Pos()), "recvAck records the acknowledgement (each update is classified above)", fmt.Sprint(nU))
	// C11.M: maybeAdvance releases exactly the newly confirmed prefix
	mfi := p.Info(maybeAdvance)
	{
		ro := mfi.Sym(maybeAdvance.Params[0])
		jci := p.Method("quorum", "JointConfig", "CommittedIndex")
		var newC *Sym
		for _, st := range p.StoresTo(confirmedF) {
			if st.Fn != maybeAdvance || st.Whole {
				continue
			}
			v := mfi.Sym(st.Val)
			okSrc := v.K == KCall && v.Fn == jci && v.Args[1].Key() == ro.Key()
			newC = v
			pr := p.Prove(mfi, st.Instr, []Req{ReqCmp(v, ">", FieldOf(ro, confirmedF))})
			c.Result(okSrc && pr.OK, "C11.M", "store readOnly.confirmedReads", fnName(maybeAdvance), p.site(st.Instr), "confirmedReads <- c.CommittedIndex(ro), only when it grew", describeProof(pr), pr.Chain...)
		}
		if newC == nil {
			c.Bad("C11.M", "store readOnly.confirmedReads", fnName(maybeAdvance), p.Pos(maybeAdvance.Pos()), "maybeAdvance advances the counter", "no store")
		} else {
			delta := &Sym{K: KBin, Name: "-", Args: []*Sym{newC, FieldOf(ro, confirmedF)}}
			for _, ret := range returnsOf(mfi) {
				v := mfi.RetSym(ret, 0)
				if v.K == KNil {
					continue
				}
				ok := v.K == KSlice && v.Args[0].K == KField && v.Args[0].Fld == unconfF && v.Args[1].K == KNil
				if ok {
					d := LinOf(v.Args[2])
					d.add(LinOf(delta), -1)
					ok = len(d.T) == 0 && d.K == 0
				}
				c.Result(ok, "C11.M", "released requests", fnName(maybeAdvance), p.site(ret), "returns unconfirmedReads[:new-confirmed]", v.Key())
			}
			for _, st := range p.StoresTo(unconfF) {
				if st.Fn != maybeAdvance || st.Whole {
					continue
				}
				v := mfi.Sym(st.Val)
				ok := v.K == KSlice && v.Args[0].K == KField && v.Args[0].Fld == unconfF && v.Args[2].K == KNil
				if ok {
					d := LinOf(v.Args[1])
					d.add(LinOf(delta), -1)
					ok = len(d.T) == 0 && d.K == 0
				}
				c.Result(ok, "C11.M", "remaining requests", fnName(maybeAdvance), p.site(st.Instr), "unconfirmedReads <- unconfirmedReads[new-confirmed:]", v.Key())
			}
		}
	}
	// C11.Z: a deposed / new leader starts with a fresh read-only state
	if reset != nil && newReadOnly != nil {
		rfi2 := p.Info(reset)
		ok := false
		for _, st := range p.StoresTo(readOnlyF) {
			if st.Fn != reset || st.Whole {
				continue
			}
			v := rfi2.Sym(st.Val)
			if v.K == KCall && v.Fn == newReadOnly && mustPass(rfi2, st.Instr) {
				ok = true
			}
		}
		c.Result(ok, "C11.Z", "reset discards read-only state", fnName(reset), p.Pos(reset.Pos()), "r.readOnly <- newReadOnly(...) on every path (acks and queued reads of an earlier leadership are forgotten)", "")
	}
	for _, st := range p.StoresTo(acksF) {
		c.Result(st.Fresh, "C11.Z", "store readOnly.acks", fnName(st.Fn), p.site(st.Instr), "the ack map is only created by the constructor", "")
	}
	for _, fn := range p.RuleFuncs {
		ffi := p.Info(fn)
		for _, in := range p.liveInstrsOf(fn) {
			if mu, ok := in.(*ssa.MapUpdate); ok {
				ms := ffi.Sym(mu.Map)
				if ms.K == KField && ms.Fld == acksF && fn != recvAck {
					c.Bad("C11.Z", "update of readOnly.acks", fnName(fn), p.site(mu), "only recvAck records acknowledgements", "")
				}
			}
		}
	}
	// C11.F: forwarding keeps the request intact
	if stepFollower != nil {
		ffi := p.Info(stepFollower)
		m := ffi.Sym(stepFollower.Params[1])
		for _, in := range p.liveInstrsOf(stepFollower) {
			st, ok := in.(*ssa.Store)
			if !ok {
				continue
			}
			fa, ok := st.Addr.(*ssa.FieldAddr)
			if !ok || ffi.Sym(fa.X).Key() != m.Key() {
				continue
			}
			name := derefStruct(fa.X.Type()).Field(fa.Field).Name()
			c.Result(name == "To", "C11.F", "stepFollower modifies the forwarded message", fnName(stepFollower), p.site(st), "a forwarded request only gets its To field set", "field "+name)
		}
		// the same through helpers: besides To, only what send itself stamps on every outgoing message
		send := p.Method("raft", "raft", "send")
		msgT := p.Type("raftpb", "Message")
		if send != nil && msgT != nil {
			isMsgField := func(f *types.Var) bool {
				st, _ := msgT.Underlying().(*types.Struct)
				for i := 0; st != nil && i < st.NumFields(); i++ {
					if st.Field(i) == f {
						return true
					}
				}
				return false
			}
			allowed := map[string]bool{"To": true}
			for l, mask := range p.Effects(send).WMask {
				if f, ok := l.(*types.Var); ok && isMsgField(f) && mask&(1<<1) != 0 {
					allowed[f.Name()] = true
				}
			}
			mBit := uint64(1) << 1
			for _, in := range p.liveInstrsOf(stepFollower) {
				ci, ok := in.(ssa.CallInstruction)
				if !ok {
					continue
				}
				var bad, wrote []string
				for l, mask := range p.CallWrites(ci) {
					f, ok := l.(*types.Var)
					if !ok || !isMsgField(f) || mask&mBit == 0 {
						continue
					}
					wrote = append(wrote, f.Name())
					if !allowed[f.Name()] {
						bad = append(bad, f.Name())
					}
				}
				if len(wrote) == 0 {
					continue
				}
				sort.Strings(bad)
				sort.Strings(wrote)
				c.Result(len(bad) == 0, "C11.F", "callee writes the forwarded message", fnName(stepFollower), p.site(in), "through the handled message a callee writes only To and what send stamps on every message", "writes "+strings.Join(wrote, ",")+"; not allowed: "+strings.Join(bad, ","))
			}
		}
	}
}
