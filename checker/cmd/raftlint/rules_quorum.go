package main

import (
	"fmt"
	"go/constant"
	"go/token"
	"go/types"
	"strings"

	"golang.org/x/tools/go/ssa"
)

// caseEval interprets the CFG of a small function for one assignment of
// finite-domain symbols (keyed by Sym.Key()) and returns the symbol returned
// (result index ri). It follows branch conditions that are comparisons among
// assigned symbols and constants; anything else makes it undecided. No code is
// run: this is an exhaustive case split over an enum domain (DESIGN §4
// G-QUORUM-JOINT "9-row truth table").
func caseEval(fi *FuncInfo, env map[string]int64, ri int) (ret *Sym, ok bool, why string) {
	val := func(s *Sym) (int64, bool) {
		if s.K == KConst {
			return constInt64(s.C)
		}
		v, ok := env[s.Key()]
		return v, ok
	}
	b := 0
	prev := -1
	resolved := map[*ssa.Phi]ssa.Value{}
	for steps := 0; steps < 200; steps++ {
		blk := fi.Fn.Blocks[b]
		// resolve the phis of this block for the edge we came in on
		if prev >= 0 {
			for _, in := range blk.Instrs {
				ph, ok := in.(*ssa.Phi)
				if !ok {
					break
				}
				for i, pr := range blk.Preds {
					if pr.Index == prev {
						v := ph.Edges[i]
						if p2, ok := v.(*ssa.Phi); ok && resolved[p2] != nil {
							v = resolved[p2]
						}
						resolved[ph] = v
					}
				}
			}
		}
		prev = b
		if fi.Cut[b] >= 0 {
			return nil, false, "path ends in a panic"
		}
		last := blk.Instrs[len(blk.Instrs)-1]
		switch t := last.(type) {
		case *ssa.Return:
			rv := t.Results[ri]
			if ph, ok := rv.(*ssa.Phi); ok && resolved[ph] != nil {
				rv = resolved[ph]
			}
			return fi.Sym(rv), true, ""
		case *ssa.Jump:
			b = blk.Succs[0].Index
		case *ssa.If:
			cond := t.Cond
			preNeg := false
			for {
				if u, isU := cond.(*ssa.UnOp); isU && u.Op == token.NOT {
					cond = u.X
					preNeg = !preNeg
					continue
				}
				if ph, isPh := cond.(*ssa.Phi); isPh && resolved[ph] != nil {
					cond = resolved[ph]
					continue
				}
				break
			}
			if k, isK := cond.(*ssa.Const); isK && k.Value != nil && k.Value.Kind() == constant.Bool {
				r := constant.BoolVal(k.Value) != preNeg
				if r {
					b = blk.Succs[0].Index
				} else {
					b = blk.Succs[1].Index
				}
				continue
			}
			cs := fi.Sym(cond)
			neg := preNeg
			for cs.K == KNot {
				cs = cs.Args[0]
				neg = !neg
			}
			if cs.K != KBin {
				return nil, false, "condition " + cs.Key() + " is not a comparison"
			}
			x, ok1 := val(cs.Args[0])
			y, ok2 := val(cs.Args[1])
			if !ok1 || !ok2 {
				return nil, false, "condition " + cs.Key() + " involves unassigned values"
			}
			var r bool
			switch cs.Name {
			case "==":
				r = x == y
			case "!=":
				r = x != y
			case "<":
				r = x < y
			case "<=":
				r = x <= y
			case ">":
				r = x > y
			case ">=":
				r = x >= y
			default:
				return nil, false, "operator " + cs.Name
			}
			if r != neg {
				b = blk.Succs[0].Index
			} else {
				b = blk.Succs[1].Index
			}
		default:
			return nil, false, "unexpected terminator"
		}
	}
	return nil, false, "too many steps"
}

// G-QUORUM-JOINT — every quorum decision consults both halves of the configuration.
func gQuorumJoint(c *Check) {
	p := c.P
	const rule = "G-QUORUM-JOINT"
	mci := p.Method("quorum", "MajorityConfig", "CommittedIndex")
	mvr := p.Method("quorum", "MajorityConfig", "VoteResult")
	jci := p.Method("quorum", "JointConfig", "CommittedIndex")
	jvr := p.Method("quorum", "JointConfig", "VoteResult")
	joint := p.Type("quorum", "JointConfig")
	votersF := p.Field("tracker", "Config", "Voters")
	won, lost, pending := p.ConstVal("quorum", "VoteWon"), p.ConstVal("quorum", "VoteLost"), p.ConstVal("quorum", "VotePending")
	if mci == nil || mvr == nil || jci == nil || jvr == nil || joint == nil {
		return
	}
	// callers of the per-majority functions
	for _, fn := range []*ssa.Function{mci, mvr} {
		for _, cs := range p.CallsTo(fn) {
			top := cs.Caller
			for top.Parent() != nil {
				top = top.Parent()
			}
			ok := false
			if recv := top.Signature.Recv(); recv != nil {
				t := recv.Type()
				if pt, isP := t.(*types.Pointer); isP {
					t = pt.Elem()
				}
				ok = types.Identical(t, joint)
			}
			c.Result(ok, rule+".callers", "caller of MajorityConfig."+fn.Name(), fnName(cs.Caller), p.site(cs.Instr), "single-majority decisions are taken only inside JointConfig methods", "")
		}
	}
	// JointConfig.CommittedIndex = min over both halves
	fi := p.Info(jci)
	cSym := fi.Sym(jci.Params[0])
	lSym := fi.Sym(jci.Params[1])
	idx := [2]*Sym{CallSym(mci, indexSym(cSym, 0), lSym), CallSym(mci, indexSym(cSym, 1), lSym)}
	for _, ret := range returnsOf(fi) {
		v := fi.RetSym(ret, 0)
		site := p.site(ret)
		isOne := v.Key() == idx[0].Key() || v.Key() == idx[1].Key()
		if v.K == KBuiltin && v.Name == "min" && len(v.Args) == 2 {
			k0, k1 := v.Args[0].Key(), v.Args[1].Key()
			isOne = (k0 == idx[0].Key() && k1 == idx[1].Key()) || (k1 == idx[0].Key() && k0 == idx[1].Key())
		}
		c.Result(isOne, rule+".min", "JointConfig.CommittedIndex return value", fnName(jci), site, "returns one of the two per-majority indexes (same indexer)", "returns "+v.Key())
		pr := p.Prove(fi, ret, []Req{ReqCmp(v, "<=", idx[0]), ReqCmp(v, "<=", idx[1])})
		c.Result(pr.OK, rule+".min", "JointConfig.CommittedIndex return is the minimum", fnName(jci), site, "returned index <= both per-majority indexes", describeProof(pr), pr.Chain...)
	}
	// JointConfig.VoteResult: 9-case analysis
	vfi := p.Info(jvr)
	vc := vfi.Sym(jvr.Params[0])
	votes := vfi.Sym(jvr.Params[1])
	r1 := CallSym(mvr, indexSym(vc, 0), votes)
	r2 := CallSym(mvr, indexSym(vc, 1), votes)
	dom := []int64{pending, lost, won}
	allOK := true
	var rows []string
	for _, a := range dom {
		for _, b := range dom {
			env := map[string]int64{r1.Key(): a, r2.Key(): b}
			ret, ok, why := caseEval(vfi, env, 0)
			if !ok {
				c.Undecided(rule+".vote", "JointConfig.VoteResult case analysis", fnName(jvr), p.Pos(jvr.Pos()), "9-case table", why)
				allOK = false
				continue
			}
			var got int64
			if ret.K == KConst {
				got, _ = constInt64(ret.C)
			} else if v, ok := env[ret.Key()]; ok {
				got = v
			} else {
				c.Undecided(rule+".vote", "JointConfig.VoteResult case analysis", fnName(jvr), p.Pos(jvr.Pos()), "9-case table", "returns "+ret.Key())
				allOK = false
				continue
			}
			want := pending
			if a == won && b == won {
				want = won
			} else if a == lost || b == lost {
				want = lost
			}
			rows = append(rows, fmt.Sprintf("(%d,%d)->%d", a, b, got))
			if got != want {
				allOK = false
				c.Bad(rule+".vote", "JointConfig.VoteResult case", fnName(jvr), p.Pos(jvr.Pos()), "Won iff both won; Lost iff either lost; else Pending", fmt.Sprintf("halves (%d,%d) give %d, expected %d", a, b, got, want))
			}
		}
	}
	if allOK {
		c.Ok(rule+".vote", "JointConfig.VoteResult 9-case table", fnName(jvr), p.Pos(jvr.Pos()), "Won iff both won; Lost iff either lost; else Pending", strings.Join(rows, " "))
	}
	// users pass the joint Voters value
	for _, fn := range []*ssa.Function{jci, jvr} {
		for _, cs := range p.CallsTo(fn) {
			cfi := p.Info(cs.Caller)
			recv := cfi.Sym(callArgs(cs.Instr)[0])
			site := p.site(cs.Instr)
			ok := recv.K == KField && recv.Fld == votersF
			detail := "receiver " + recv.Key()
			if !ok && recv.K == KParam {
				// a JointConfig parameter: all callers must pass the Voters field
				ok = true
				idx := -1
				for i, prm := range cs.Caller.Params {
					if prm == recv.V {
						idx = i
					}
				}
				sites := p.CallsTo(cs.Caller)
				if len(sites) == 0 {
					ok = false
				}
				for _, cs2 := range sites {
					a := p.Info(cs2.Caller).Sym(callArgs(cs2.Instr)[idx])
					if !(a.K == KField && a.Fld == votersF) {
						ok = false
						detail = fmt.Sprintf("caller %s passes %s", fnName(cs2.Caller), a)
					}
				}
			}
			c.Result(ok, rule+".users", "receiver of JointConfig."+fn.Name(), fnName(cs.Caller), site, "the whole joint Voters value (never one half)", detail)
		}
	}
	// the tracker's quorum deciders all go through the joint configuration
	for _, d := range []struct {
		name string
		via  *ssa.Function
	}{{"QuorumActive", jvr}, {"Committed", jci}} {
		fn := p.Method("tracker", "ProgressTracker", d.name)
		if fn == nil {
			continue
		}
		dfi := p.Info(fn)
		for _, ret := range returnsOf(dfi) {
			v := dfi.RetSym(ret, 0)
			ok := false
			v.Walk(func(x *Sym) {
				if x.K == KCall && x.Fn == d.via && len(x.Args) > 0 && x.Args[0].K == KField && x.Args[0].Fld == votersF {
					ok = true
				}
			})
			c.Result(ok, rule+".deciders", "ProgressTracker."+d.name+" result", fnName(fn), p.site(ret), "decided by JointConfig."+d.via.Name()+" over the whole Voters value on every return", sanitizeKey(v.Key()))
		}
	}
	if isSingleton := p.Method("tracker", "ProgressTracker", "IsSingleton"); isSingleton != nil {
		ifi := p.Info(isSingleton)
		pt := ifi.Sym(isSingleton.Params[0])
		v := FieldOf(FieldOf(pt, p.Field("tracker", "ProgressTracker", "Config")), votersF)
		spec := bfAnd(bfCmp(&Sym{K: KBuiltin, Name: "len", Args: []*Sym{indexSym(v, 0)}}, "==", constSym(1)),
			bfCmp(&Sym{K: KBuiltin, Name: "len", Args: []*Sym{indexSym(v, 1)}}, "==", constSym(0)))
		if code := p.ReturnFormula(isSingleton); code != nil {
			ok, why := bfEquiv(code, spec)
			c.Result(ok, rule+".deciders", "ProgressTracker.IsSingleton", fnName(isSingleton), p.Pos(isSingleton.Pos()), "len(Voters[0]) == 1 && len(Voters[1]) == 0 (a joint configuration is never a singleton)", code.String()+" "+why)
		}
	}
}

// ---- C12: parity evaluation of the quorum formulas ---------------------------

// parityLin evaluates an integer symbol that depends on one variable n (by
// key) for n = 2m+r, as a linear form a*m + b. Supports + - constants and /2.
func parityLin(s *Sym, nKey string, r int64) (a, b int64, ok bool) {
	if s.Key() == nKey {
		return 2, r, true
	}
	switch s.K {
	case KConst:
		v, ok := constInt64(s.C)
		return 0, v, ok
	case KBin:
		a1, b1, ok1 := parityLin(s.Args[0], nKey, r)
		a2, b2, ok2 := parityLin(s.Args[1], nKey, r)
		if !ok1 || !ok2 {
			return 0, 0, false
		}
		switch s.Name {
		case "+":
			return a1 + a2, b1 + b2, true
		case "-":
			return a1 - a2, b1 - b2, true
		case "/":
			if a2 == 0 && b2 == 2 && a1%2 == 0 {
				// floor((a1*m + b1)/2) with a1 even: a1/2*m + floor(b1/2)
				fb := b1 / 2
				if b1 < 0 && b1%2 != 0 {
					fb--
				}
				return a1 / 2, fb, true
			}
		}
	}
	return 0, 0, false
}

func c12Quorum(c *Check) {
	p := c.P
	const rule = "C12"
	mvr := p.Method("quorum", "MajorityConfig", "VoteResult")
	mci := p.Method("quorum", "MajorityConfig", "CommittedIndex")
	won, lost, pending := p.ConstVal("quorum", "VoteWon"), p.ConstVal("quorum", "VoteLost"), p.ConstVal("quorum", "VotePending")
	if mvr == nil || mci == nil {
		return
	}
	// ---- C12.Q: VoteResult
	fi := p.Info(mvr)
	cs := fi.Sym(mvr.Params[0])
	nSym := &Sym{K: KBuiltin, Name: "len", Args: []*Sym{cs}}
	nKey := nSym.Key()
	yes, missing := c12Counters(c, fi, mvr)
	// thresholds are recognised by parity evaluation, so any formula for the
	// strict-majority size that is m+1 for n=2m and n=2m+1 is accepted.
	// An atom  cy*yes + cm*missing + R(n) <= 0  is classified by (cy, cm, R).
	type thr struct{ cy, cm, a, b int64 }
	classify := func(f *Facts) (out []thr, unparsed []string) {
		for _, at := range f.Atoms {
			if at.K != ALe {
				continue
			}
			t := thr{}
			ra0, rb0, ra1, rb1 := int64(0), at.L.K, int64(0), at.L.K
			ok := true
			touches := false
			for k, sy := range at.L.S {
				cf := at.L.T[k]
				switch {
				case yes != nil && k == yes.Key():
					t.cy = cf
					touches = true
				case missing != nil && k == missing.Key():
					t.cm = cf
					touches = true
				default:
					a0, b0, ok0 := parityLin(sy, nKey, 0)
					a1, b1, ok1 := parityLin(sy, nKey, 1)
					if !ok0 || !ok1 {
						ok = false
					}
					ra0 += cf * a0
					rb0 += cf * b0
					ra1 += cf * a1
					rb1 += cf * b1
				}
			}
			if !touches {
				continue
			}
			if !ok || ra0 != ra1 || rb0 != rb1 {
				unparsed = append(unparsed, at.String())
				continue
			}
			t.a, t.b = ra0, rb0
			out = append(out, t)
		}
		return
	}
	has := func(ts []thr, w thr) bool {
		for _, t := range ts {
			if t == w {
				return true
			}
		}
		return false
	}
	yesGE := thr{-1, 0, 1, 1}  // m+1 - yes <= 0
	yesLT := thr{1, 0, -1, 0}  // yes - m <= 0
	sumGE := thr{-1, -1, 1, 1} // m+1 - yes - missing <= 0
	sumLT := thr{1, 1, -1, 0}  // yes + missing - m <= 0
	for _, ret := range returnsOf(fi) {
		v := fi.RetSym(ret, 0)
		site := p.site(ret)
		f := fi.FactsAt(ret)
		desc := strings.Join(f.Describe(), "; ")
		cv, isConst := int64(0), false
		if v.K == KConst {
			cv, isConst = constInt64(v.C)
		}
		if !isConst {
			c.Undecided(rule+".Q", "MajorityConfig.VoteResult return", fnName(mvr), site, "returns a VoteResult constant", "returns "+v.Key())
			continue
		}
		if f.ImpliesCmp(nSym, "==", constSym(0)) {
			c.Result(cv == won, rule+".Q", "empty majority config", fnName(mvr), site, "an empty set imposes no constraint: VoteWon", fmt.Sprintf("returns %d", cv))
			continue
		}
		if yes == nil || missing == nil {
			c.Undecided(rule+".Q", "VoteResult thresholds", fnName(mvr), site, "counters identified", "yes/missing counters not found")
			continue
		}
		ts, unp := classify(f)
		if len(unp) > 0 {
			desc += " | not a function of n by parity: " + strings.Join(unp, ", ")
		}
		switch cv {
		case won:
			c.Result(has(ts, yesGE), rule+".Q", "VoteWon threshold", fnName(mvr), site, "VoteWon only under yes >= m+1 (n=2m or 2m+1)", desc)
		case pending:
			c.Result(has(ts, sumGE) && has(ts, yesLT), rule+".Q", "VotePending threshold", fnName(mvr), site, "VotePending only under yes < m+1 <= yes+missing", desc)
		case lost:
			c.Result(has(ts, sumLT), rule+".Q", "VoteLost threshold", fnName(mvr), site, "VoteLost only under yes+missing < m+1", desc)
		default:
			c.Bad(rule+".Q", "VoteResult return", fnName(mvr), site, "one of Won/Pending/Lost", fmt.Sprint(cv))
		}
	}

	// ---- C12.I: CommittedIndex
	c12CommittedIndex(c, p.Info(mci), mci, nKeyOf(p.Info(mci), mci))
}

func nKeyOf(fi *FuncInfo, fn *ssa.Function) string {
	return (&Sym{K: KBuiltin, Name: "len", Args: []*Sym{fi.Sym(fn.Params[0])}}).Key()
}

func c12Counters(c *Check, fi *FuncInfo, fn *ssa.Function) (yes, missing *Sym) {
	p := c.P
	const rule = "C12.Q"
	nMissing, nYes := 0, 0
	for _, in := range p.liveInstrsOf(fn) {
		bo, ok := in.(*ssa.BinOp)
		if !ok || bo.Op.String() != "+" || !isIntType(bo.Type()) {
			continue
		}
		k, ok := bo.Y.(*ssa.Const)
		if !ok || k.Value == nil || k.Value.String() != "1" {
			continue
		}
		phi, isPhi := bo.X.(*ssa.Phi)
		if !isPhi {
			continue
		}
		facts := fi.FactsAt(bo)
		var okAtom, vAtom *Atom
		for _, a := range facts.Atoms {
			if a.K == ABool && a.S.K == KExtract && a.S.Args[0].K == KIndex && a.S.Args[0].Name == "commaok" {
				if a.S.Idx == 1 {
					okAtom = a
				} else if a.S.Idx == 0 {
					vAtom = a
				}
			}
		}
		site := p.site(bo)
		switch {
		case okAtom != nil && okAtom.Neg:
			nMissing++
			missing = fi.Sym(phi)
			c.Ok(rule, "missing counter increment", fnName(fn), site, "missing++ exactly for voters with no recorded vote", okAtom.String())
		case okAtom != nil && !okAtom.Neg && vAtom != nil && !vAtom.Neg:
			nYes++
			yes = fi.Sym(phi)
			c.Ok(rule, "yes counter increment", fnName(fn), site, "yes++ exactly for voters whose recorded vote is true", okAtom.String()+" && "+vAtom.String())
		default:
			if feedsReturnGuard(fi, bo) {
				c.Bad(rule, "vote counter increment", fnName(fn), site, "counters are incremented only under (!ok) or (ok && v)", strings.Join(facts.Describe(), "; "))
			}
		}
	}
	c.Result(nMissing == 1 && nYes == 1, rule, "vote counters", fnName(fn), p.Pos(fn.Pos()), "one missing counter and one yes counter", fmt.Sprintf("missing=%d yes=%d", nMissing, nYes))
	if nMissing != 1 || nYes != 1 {
		return nil, nil
	}
	return yes, missing
}

func feedsReturnGuard(fi *FuncInfo, v ssa.Value) bool {
	seen := map[ssa.Value]bool{}
	var rec func(v ssa.Value) bool
	rec = func(v ssa.Value) bool {
		if seen[v] {
			return false
		}
		seen[v] = true
		for _, r := range *v.Referrers() {
			switch x := r.(type) {
			case *ssa.If:
				return true
			case *ssa.BinOp:
				switch x.Op.String() {
				case "<", "<=", ">", ">=", "==", "!=":
					// comparison against the loop bound is also a comparison; require non-loop-header
					for _, rr := range *x.Referrers() {
						if iff, ok := rr.(*ssa.If); ok {
							_ = iff
							// loop conditions compare with len/range bound; vote guards compare with q (contains "/")
							other := x.Y
							if other == v {
								other = x.X
							}
							if strings.Contains(fi.Sym(other).Key(), "/") {
								return true
							}
						}
					}
				default:
					if rec(x) {
						return true
					}
				}
			case *ssa.Phi:
				if rec(x) {
					return true
				}
			}
		}
		return false
	}
	return rec(v)
}

func c12CommittedIndex(c *Check, fi *FuncInfo, fn *ssa.Function, nKey string) {
	p := c.P
	const rule = "C12.I"
	sortFn := "slices.Sort"
	for _, ret := range returnsOf(fi) {
		v := fi.RetSym(ret, 0)
		site := p.site(ret)
		f := fi.FactsAt(ret)
		if v.K == KConst {
			// empty set -> MaxUint64 under len == 0
			cv, _ := constInt64(v.C)
			empty := f.ImpliesCmp(&Sym{K: KBuiltin, Name: "len", Args: []*Sym{fi.Sym(fn.Params[0])}}, "==", constSym(0))
			c.Result(empty && cv == -1, rule, "empty majority config", fnName(fn), site, "an empty set imposes no constraint: MaxUint64, under len(c)==0", fmt.Sprintf("returns %s under {%s}", v, strings.Join(f.Describe(), "; ")))
			continue
		}
		// srt[pos]
		if v.K != KIndex {
			c.Bad(rule, "CommittedIndex return", fnName(fn), site, "returns srt[n-(n/2+1)]", "returns "+v.Key())
			continue
		}
		pos := v.Args[1]
		a0, b0, ok0 := parityLin(pos, nKey, 0)
		a1, b1, ok1 := parityLin(pos, nKey, 1)
		okPos := ok0 && ok1 && a0 == 1 && b0 == -1 && a1 == 1 && b1 == 0
		c.Result(okPos, rule, "CommittedIndex position", fnName(fn), site, "pos = n-(n/2+1): m-1 for n=2m, m for n=2m+1", fmt.Sprintf("pos = %s  (even: %d*m%+d, odd: %d*m%+d)", pos, a0, b0, a1, b1))
		// the container: phi of stk[:n] and make([]uint64, n)
		cont := v.Args[0]
		okLen := true
		detail := ""
		var srtVal ssa.Value = cont.V
		if cont.K == KPhi {
			ph := cont.V.(*ssa.Phi)
			for i, e := range ph.Edges {
				es := fi.Sym(e)
				switch es.K {
				case KSlice:
					// stk[:n]: high == n, backing array is a fresh zeroed local, under len(stk) >= n
					if es.Args[2].Key() != nKey {
						okLen = false
						detail += fmt.Sprintf("edge %d slice high %s; ", i, es.Args[2])
					}
					if es.Args[0].K != KAlloc {
						okLen = false
						detail += fmt.Sprintf("edge %d not a fresh array; ", i)
					} else {
						// capacity guard on the incoming edge
						arr := es.Args[0].V.Type().(*types.Pointer).Elem().Underlying().(*types.Array)
						pf := &Facts{FI: fi}
						for _, ef := range fi.EdgeFacts(ph.Block().Preds[i].Index) {
							pf.Atoms = append(pf.Atoms, atomsOf(fi.Sym(ef.Cond), ef.Pos)...)
						}
						if !pf.ImpliesCmp(&Sym{K: KBuiltin, Name: "len", Args: []*Sym{fi.Sym(fn.Params[0])}}, "<=", constSym(arr.Len())) {
							okLen = false
							detail += fmt.Sprintf("edge %d: no guard n <= %d; ", i, arr.Len())
						}
					}
				case KAlloc:
					mk, ok := es.V.(*ssa.MakeSlice)
					if !ok || fi.Sym(mk.Len).Key() != nKey {
						okLen = false
						detail += fmt.Sprintf("edge %d make length; ", i)
					}
				default:
					okLen = false
					detail += fmt.Sprintf("edge %d is %s; ", i, es)
				}
			}
		} else {
			okLen = false
			detail = "container " + cont.Key()
		}
		c.Result(okLen, rule, "CommittedIndex scratch slice", fnName(fn), site, "srt has length exactly n and is zero-initialised (stack array under n <= cap, else make(n))", detail)
		// sort dominates the read and post-dominates the fill
		var sortCall ssa.Instruction
		for _, in := range p.liveInstrsOf(fn) {
			if ci, ok := in.(*ssa.Call); ok {
				if callee := ci.Common().StaticCallee(); callee != nil && strings.HasPrefix(fnName(callee), sortFn) && len(ci.Common().Args) == 1 && ci.Common().Args[0] == srtVal {
					sortCall = ci
				}
			}
		}
		okSort := sortCall != nil && fi.InstrDominates(sortCall, ret)
		// every store into srt happens before the sort (cannot be reached from it)
		if okSort {
			after := fi.ReachableFrom(fi.Succs[sortCall.Block().Index], nil)
			for _, in := range p.liveInstrsOf(fn) {
				if st, ok := in.(*ssa.Store); ok {
					if ia, ok := st.Addr.(*ssa.IndexAddr); ok && ia.X == srtVal {
						if after[st.Block().Index] || st.Block() == sortCall.Block() && instrIndex(st) > instrIndex(sortCall) {
							okSort = false
						}
					}
				}
			}
		}
		c.Result(okSort, rule, "CommittedIndex sorts before reading", fnName(fn), site, "slices.Sort(srt) follows every fill and dominates the read", "")
		// fills: srt[i] = AckedIndex(id) under ok
		nFill := 0
		for _, in := range p.liveInstrsOf(fn) {
			st, ok := in.(*ssa.Store)
			if !ok {
				continue
			}
			ia, ok := st.Addr.(*ssa.IndexAddr)
			if !ok || ia.X != srtVal {
				continue
			}
			nFill++
			sv := fi.Sym(st.Val)
			ff := fi.FactsAt(st)
			okSrc := sv.K == KExtract && sv.Idx == 0 && sv.Args[0].K == KCall && sv.Args[0].Meth != nil && sv.Args[0].Meth.Name() == "AckedIndex"
			okGuard := false
			if okSrc {
				for _, a := range ff.Atoms {
					if a.K == ABool && !a.Neg && a.S.K == KExtract && a.S.Idx == 1 && a.S.Args[0].Key() == sv.Args[0].Key() {
						okGuard = true
					}
				}
			}
			c.Result(okSrc && okGuard, rule, "CommittedIndex fill", fnName(fn), p.site(st), "srt[i] <- AckedIndex(id) only when found (missing voters stay 0)", fmt.Sprintf("stores %s under {%s}", sv, strings.Join(ff.Describe(), "; ")))
		}
		c.Result(nFill == 1, rule, "CommittedIndex single fill site", fnName(fn), site, "one store per iteration", fmt.Sprint(nFill))
	}
}
