package main

import (
	"fmt"
	"go/types"
	"strings"

	"golang.org/x/tools/go/ssa"
)

// boundary is one required error boundary: in function fn, the sentinel is
// returned exactly under cond (built from the function's own symbols).
type boundary struct {
	fn       *ssa.Function
	sentinel string
	cond     func(fi *FuncInfo) (a *Sym, op string, b *Sym)
	text     string
}

func isSentinel(s *Sym, name string) bool {
	return strings.HasSuffix(s.Key(), "@"+name) || s.Key() == "@"+name
}

// C18 — log storage views behave like one abstract log.
func c18Storage(c *Check) {
	p := c.P
	lterm := p.Method("raft", "raftLog", "term")
	lfirst := p.Method("raft", "raftLog", "firstIndex")
	llast := p.Method("raft", "raftLog", "lastIndex")
	lcheck := p.Method("raft", "raftLog", "mustCheckOutOfBounds")
	msTerm := p.Method("raft", "MemoryStorage", "Term")
	msEntries := p.Method("raft", "MemoryStorage", "Entries")
	msCompact := p.Method("raft", "MemoryStorage", "Compact")
	msCreate := p.Method("raft", "MemoryStorage", "CreateSnapshot")
	entsF := p.Field("raft", "MemoryStorage", "ents")
	snapF := p.Field("raft", "MemoryStorage", "snapshot")
	getIndexE := p.Method("raftpb", "Entry", "GetIndex")
	lenOf := func(s *Sym) *Sym { return &Sym{K: KBuiltin, Name: "len", Args: []*Sym{s}} }
	offsetOf := func(fi *FuncInfo, fn *ssa.Function) *Sym {
		ms := fi.Sym(fn.Params[0])
		return CallSym(getIndexE, indexSym(FieldOf(ms, entsF), 0))
	}
	bs := []boundary{
		{lterm, "ErrCompacted", func(fi *FuncInfo) (*Sym, string, *Sym) {
			return &Sym{K: KBin, Name: "+", Args: []*Sym{fi.Sym(lterm.Params[1]), constSym(1)}}, "<", CallSym(lfirst, fi.Sym(lterm.Params[0]))
		}, "i+1 < firstIndex()"},
		{lterm, "ErrUnavailable", func(fi *FuncInfo) (*Sym, string, *Sym) {
			return fi.Sym(lterm.Params[1]), ">", CallSym(llast, fi.Sym(lterm.Params[0]))
		}, "i > lastIndex()"},
		{lcheck, "ErrCompacted", func(fi *FuncInfo) (*Sym, string, *Sym) {
			return fi.Sym(lcheck.Params[1]), "<", CallSym(lfirst, fi.Sym(lcheck.Params[0]))
		}, "lo < firstIndex()"},
		{msTerm, "ErrCompacted", func(fi *FuncInfo) (*Sym, string, *Sym) {
			return fi.Sym(msTerm.Params[1]), "<", offsetOf(fi, msTerm)
		}, "i < offset"},
		{msTerm, "ErrUnavailable", func(fi *FuncInfo) (*Sym, string, *Sym) {
			return &Sym{K: KBin, Name: "-", Args: []*Sym{fi.Sym(msTerm.Params[1]), offsetOf(fi, msTerm)}}, ">=", lenOf(FieldOf(fi.Sym(msTerm.Params[0]), entsF))
		}, "i-offset >= len(ents)"},
		{msEntries, "ErrCompacted", func(fi *FuncInfo) (*Sym, string, *Sym) {
			return fi.Sym(msEntries.Params[1]), "<=", offsetOf(fi, msEntries)
		}, "lo <= offset"},
		{msEntries, "ErrUnavailable", func(fi *FuncInfo) (*Sym, string, *Sym) {
			return lenOf(FieldOf(fi.Sym(msEntries.Params[0]), entsF)), "==", constSym(1)
		}, "only the dummy entry"},
		{msCompact, "ErrCompacted", func(fi *FuncInfo) (*Sym, string, *Sym) {
			return fi.Sym(msCompact.Params[1]), "<=", offsetOf(fi, msCompact)
		}, "compactIndex <= offset"},
		{msCreate, "ErrSnapOutOfDate", func(fi *FuncInfo) (*Sym, string, *Sym) {
			return fi.Sym(msCreate.Params[1]), "<=", snapIndexSym(p, FieldOf(fi.Sym(msCreate.Params[0]), snapF))
		}, "i <= snapshot.index"},
	}
	for _, b := range bs {
		if b.fn == nil {
			continue
		}
		fi := p.Info(b.fn)
		found := false
		for _, ret := range returnsOf(fi) {
			ev := fi.RetSym(ret, len(ret.Results)-1)
			if !isSentinel(ev, b.sentinel) {
				continue
			}
			a, op, bb := b.cond(fi)
			f := fi.FactsAt(ret)
			// the innermost guard of this return is exactly the boundary condition
			okFwd := f.ImpliesCmp(a, op, bb)
			okBack := false
			if len(f.Atoms) > 0 {
				spec := &Facts{FI: fi, Atoms: atomsOf(cmpSym(a, op, bb), true)}
				inner := f.Atoms[0]
				switch inner.K {
				case ALe:
					okBack = spec.ImpliesLe(inner.L)
				case AEq:
					n := newLin()
					n.add(inner.L, -1)
					okBack = spec.ImpliesLe(inner.L) && spec.ImpliesLe(n)
				}
			}
			if !okFwd && !found {
				continue // maybe another return of the same sentinel (e.g. passing on a storage error)
			}
			found = true
			c.Result(okFwd && okBack, "C18.E", b.sentinel+" boundary", fnName(b.fn), p.site(ret), b.sentinel+" exactly when "+b.text, strings.Join(f.Describe(), "; "))
		}
		if !found {
			c.Bad("C18.E", b.sentinel+" boundary", fnName(b.fn), p.Pos(b.fn.Pos()), b.sentinel+" exactly when "+b.text, "no return of the sentinel under that condition")
		}
	}
	// ApplySnapshot: ErrSnapOutOfDate under msIndex != 0 && msIndex >= snapIndex
	if aps := p.Method("raft", "MemoryStorage", "ApplySnapshot"); aps != nil {
		fi := p.Info(aps)
		for _, ret := range returnsOf(fi) {
			ev := fi.RetSym(ret, 0)
			if !isSentinel(ev, "ErrSnapOutOfDate") {
				continue
			}
			f := fi.FactsAt(ret)
			ms := fi.Sym(aps.Params[0])
			msIdx := snapIndexSym(p, FieldOf(ms, snapF))
			ok := f.ImpliesCmp(msIdx, "!=", constSym(0))
			ge := false
			var other *Sym
			for _, a := range f.Atoms {
				if a.K == ALe {
					for k := range a.L.S {
						if k == msIdx.Key() && a.L.T[k] == -1 {
							ge = true
							for k2, s2 := range a.L.S {
								if k2 != k {
									other = s2
								}
							}
						}
					}
				}
			}
			// exactly: the rejection is taken iff msIndex != 0 && msIndex >= snapIndex
			exact, why := false, "the compared index is not the new snapshot's"
			snapPrm := fi.Sym(aps.Params[1])
			if other != nil && strings.Contains(other.Key(), snapPrm.Key()) && strings.HasSuffix(other.Key(), ".GetMetadata().GetIndex()") {
				if pf, okP := fi.PathFormula(ret, -1); okP {
					spec := bfAnd(bfCmp(msIdx, "!=", constSym(0)), bfCmp(msIdx, ">=", other))
					exact, why = bfEquiv(pf, spec)
				}
			}
			c.Result(ok && ge && exact, "C18.E", "ErrSnapOutOfDate boundary (ApplySnapshot)", fnName(aps), p.site(ret), "rejected exactly when the existing snapshot index != 0 && >= the new one (re-applying the same snapshot must not wipe the log)", strings.Join(f.Describe(), "; ")+" "+why)
		}
	}
	// --- C18.V: view composition: unstable first, then storage
	maybeFirst := p.Method("raft", "unstable", "maybeFirstIndex")
	maybeLast := p.Method("raft", "unstable", "maybeLastIndex")
	maybeTerm := p.Method("raft", "unstable", "maybeTerm")
	for _, pair := range []struct {
		fn, probe *ssa.Function
		stor      string
	}{{lfirst, maybeFirst, "FirstIndex"}, {llast, maybeLast, "LastIndex"}, {lterm, maybeTerm, "Term"}} {
		if pair.fn == nil || pair.probe == nil {
			continue
		}
		fi := p.Info(pair.fn)
		okU, okS := false, false
		for _, ret := range returnsOf(fi) {
			v := fi.RetSym(ret, 0)
			f := fi.FactsAt(ret)
			tested := &Facts{FI: fi, Atoms: f.Tested}
			probeOK := func(pos bool) bool {
				return tested.HasBool(func(s *Sym) bool {
					return s.K == KExtract && s.Idx == 1 && s.Args[0].K == KCall && s.Args[0].Fn == pair.probe
				}, pos) != nil
			}
			if v.K == KExtract && v.Idx == 0 && v.Args[0].K == KCall && v.Args[0].Fn == pair.probe && probeOK(true) {
				okU = true
			}
			if v.K == KExtract && v.Idx == 0 && v.Args[0].K == KCall && v.Args[0].Meth != nil && v.Args[0].Meth.Name() == pair.stor && probeOK(false) {
				okS = true
			}
		}
		c.Result(okU && okS, "C18.V", "raftLog."+pair.fn.Name()+" consults unstable before storage", fnName(pair.fn), p.Pos(pair.fn.Pos()), "unstable."+pair.probe.Name()+"() wins when it knows the answer, Storage."+pair.stor+"() otherwise", fmt.Sprintf("unstable=%v storage=%v", okU, okS))
	}
	// slice(): split point and the two parts
	c18Slice(c)
	// --- C18.A: aliasing
	c18Alias(c)
	// --- C18.O: ownership and locking
	unst := p.Type("raft", "unstable")
	ownership(c, "C18.O", unst, p.fields("raft", "unstable", "entries", "offset", "offsetInProgress", "snapshot", "snapshotInProgress"), nil)
	msT := p.Type("raft", "MemoryStorage")
	ownership(c, "C18.O", msT, p.fields("raft", "MemoryStorage", "ents", "snapshot", "hardState"), nil)
	c18Locking(c)
	// --- C18.S: in-progress cursor
	c18Cursor(c)
	// truncateAndAppend case analysis (C03.U)
	c03Unstable(c)
}

func c18Slice(c *Check) {
	p := c.P
	lslice := p.Method("raft", "raftLog", "slice")
	uslice := p.Method("raft", "unstable", "slice")
	unstableF := p.Field("raft", "raftLog", "unstable")
	offF := p.Field("raft", "unstable", "offset")
	if lslice == nil || uslice == nil {
		return
	}
	fi := p.Info(lslice)
	l := fi.Sym(lslice.Params[0])
	lo, hi := fi.Sym(lslice.Params[1]), fi.Sym(lslice.Params[2])
	off := FieldOf(FieldOf(l, unstableF), offF)
	for _, in := range p.liveInstrsOf(lslice) {
		call, ok := in.(ssa.CallInstruction)
		if !ok {
			continue
		}
		site := p.site(in)
		cc := call.Common()
		if cc.IsInvoke() && cc.Method.Name() == "Entries" {
			a := callArgs(call)
			s1, s2 := fi.Sym(a[1]), fi.Sym(a[2])
			okLo := s1.Key() == lo.Key()
			okHi := s2.K == KBuiltin && s2.Name == "min" && len(s2.Args) == 2 &&
				(s2.Args[0].Key() == hi.Key() && s2.Args[1].Key() == off.Key() || s2.Args[1].Key() == hi.Key() && s2.Args[0].Key() == off.Key())
			c.Result(okLo && okHi, "C18.V", "storage part of slice", fnName(lslice), site, "storage.Entries(lo, min(hi, unstable.offset), …)", fmt.Sprintf("(%s, %s)", s1, s2))
			f := fi.FactsAt(in)
			c.Result(f.ImpliesCmp(lo, "<", off), "C18.V", "storage consulted only below the unstable offset", fnName(lslice), site, "lo < unstable.offset", strings.Join(f.Describe(), "; "))
		}
		if callee := cc.StaticCallee(); callee == uslice {
			a := callArgs(call)
			s1, s2 := fi.Sym(a[1]), fi.Sym(a[2])
			f := fi.FactsAt(in)
			switch {
			case s1.Key() == lo.Key() && s2.Key() == hi.Key():
				c.Result(f.ImpliesCmp(lo, ">=", off), "C18.V", "pure unstable slice", fnName(lslice), site, "unstable.slice(lo, hi) only when lo >= unstable.offset", strings.Join(f.Describe(), "; "))
			case s1.Key() == off.Key() && s2.Key() == hi.Key():
				c.Result(f.ImpliesCmp(hi, ">", off), "C18.V", "unstable tail of a mixed slice", fnName(lslice), site, "unstable.slice(unstable.offset, hi) only when hi > unstable.offset", strings.Join(f.Describe(), "; "))
			default:
				c.Bad("C18.V", "unstable part of slice", fnName(lslice), site, "(lo,hi) or (unstable.offset,hi)", fmt.Sprintf("(%s, %s)", s1, s2))
			}
		}
	}
}

// derivesOwned: does the slice symbol share its backing array with
// unstable.entries / MemoryStorage.ents? capped: is it protected by a full
// slice expression (max == high) or is it a tail slice (no explicit high)?
func ownedInfo(p *Prog, s *Sym, owned map[*types.Var]bool, uslice, limitSize *ssa.Function, depth int) (derives, safe bool) {
	if depth > 8 {
		return false, true
	}
	switch s.K {
	case KField:
		if owned[s.Fld] {
			return true, true // the whole owned slice itself (len == its live length)
		}
	case KSlice:
		d, baseSafe := ownedInfo(p, s.Args[0], owned, uslice, limitSize, depth+1)
		if !d {
			return false, true
		}
		high, max := s.Args[2], s.Args[3]
		if high.K == KNil {
			return true, baseSafe // tail slice: spare capacity holds no live entry beyond what the base allows
		}
		if max.K != KNil && max.Key() == high.Key() {
			return true, true
		}
		return true, false
	case KCall:
		if s.Fn == uslice {
			return true, true // checked separately: returns a capped slice
		}
		if s.Fn == limitSize && len(s.Args) > 0 {
			d, _ := ownedInfo(p, s.Args[0], owned, uslice, limitSize, depth+1)
			return d, false // a prefix of its argument: uncapped
		}
	}
	return false, true
}

func c18Alias(c *Check) {
	p := c.P
	uentries := p.Field("raft", "unstable", "entries")
	msents := p.Field("raft", "MemoryStorage", "ents")
	uslice := p.Method("raft", "unstable", "slice")
	limitSize := p.Func("raft", "limitSize")
	owned := map[*types.Var]bool{uentries: true, msents: true}
	n := 0
	for _, fn := range p.RuleFuncs {
		if fnPkg(fn).Path() != pkgPaths["raft"] {
			continue
		}
		fi := p.Info(fn)
		for _, in := range p.liveInstrsOf(fn) {
			switch x := in.(type) {
			case *ssa.Return:
				for ri := range x.Results {
					r := fi.RetVal(x, ri)
					if _, isSl := r.Type().Underlying().(*types.Slice); !isSl {
						continue
					}
					s := fi.Sym(r)
					d, safe := ownedInfo(p, s, owned, uslice, limitSize, 0)
					if !d {
						continue
					}
					if s.K == KField {
						continue // internal accessor returning the field itself is not in this code base; whole-slice returns are tails
					}
					n++
					c.Result(safe, "C18.A", "returned slice of an owned entries array", fnName(fn), p.site(in), "capped by a full slice expression (max == high), or a tail slice", sanitizeKey(s.Key()))
				}
			case *ssa.Call:
				b, ok := x.Common().Value.(*ssa.Builtin)
				if !ok || b.Name() != "append" {
					continue
				}
				base := fi.Sym(x.Common().Args[0])
				d, safe := ownedInfo(p, base, owned, uslice, limitSize, 0)
				if !d {
					continue
				}
				n++
				c.Result(safe, "C18.A", "append onto a slice of an owned entries array", fnName(fn), p.site(in), "the base is the whole slice, a tail, or a prefix capped with max == high (so the append copies)", sanitizeKey(base.Key()))
			}
		}
	}
	c.Result(n >= 6, "C18.A", "aliasing sites found", "-", "-", "owned-array slices are returned / appended to in several places", fmt.Sprint(n))
	// Compact builds a new backing array
	if compact := p.Method("raft", "MemoryStorage", "Compact"); compact != nil {
		fi := p.Info(compact)
		for _, st := range p.StoresTo(msents) {
			if st.Fn != compact || st.Whole {
				continue
			}
			fresh := false
			var walk func(v ssa.Value, d int)
			walk = func(v ssa.Value, d int) {
				if d > 6 {
					return
				}
				switch y := v.(type) {
				case *ssa.MakeSlice:
					fresh = true
				case *ssa.Call:
					if b, ok := y.Common().Value.(*ssa.Builtin); ok && b.Name() == "append" {
						walk(y.Common().Args[0], d+1)
					}
				case *ssa.Slice:
					walk(y.X, d+1)
				case *ssa.Phi:
					for _, e := range y.Edges {
						walk(e, d+1)
					}
				}
			}
			walk(st.Val, 0)
			c.Result(fresh, "C18.A", "Compact allocates a new array", fnName(compact), p.site(st.Instr), "ms.ents <- append(make(...), tail...) (earlier Entries() results stay valid)", sanitizeKey(fi.Sym(st.Val).Key()))
		}
	}
}

func c18Locking(c *Check) {
	p := c.P
	msT := p.Type("raft", "MemoryStorage")
	if msT == nil {
		return
	}
	fields := map[*types.Var]bool{}
	for _, f := range p.fields("raft", "MemoryStorage", "ents", "snapshot", "hardState") {
		fields[f] = true
	}
	for i := 0; i < msT.NumMethods(); i++ {
		m := msT.Method(i)
		if !m.Exported() {
			continue
		}
		fn := p.SSA.FuncValue(m)
		if fn == nil || fn.Blocks == nil {
			continue
		}
		fi := p.Info(fn)
		var lock ssa.Instruction
		hasDeferUnlock := false
		var firstTouch ssa.Instruction
		for _, in := range p.liveInstrsOf(fn) {
			switch x := in.(type) {
			case *ssa.Call:
				if callee := x.Common().StaticCallee(); callee != nil && callee.Name() == "Lock" && strings.Contains(callee.String(), "sync.Mutex") && lock == nil {
					lock = in
				}
			case *ssa.Defer:
				if callee := x.Common().StaticCallee(); callee != nil && callee.Name() == "Unlock" {
					hasDeferUnlock = true
				}
			case *ssa.FieldAddr:
				if st := derefStruct(x.X.Type()); st != nil && fields[st.Field(x.Field)] && firstTouch == nil {
					firstTouch = in
				}
			}
		}
		// transitively touched through unexported helpers
		touches := firstTouch != nil
		if !touches {
			e := p.Effects(fn)
			for f := range fields {
				if e.Reads[f] || e.Writes[f] {
					touches = true
				}
			}
		}
		if !touches {
			continue
		}
		ok := lock != nil && hasDeferUnlock && (firstTouch == nil || fi.InstrDominates(lock, firstTouch))
		// C18 as stated is about sequential behaviour; locking is reported for the reader only
		c.Info(ok, "C18.O.locking", "MemoryStorage."+m.Name()+" holds the mutex", fnName(fn), p.Pos(fn.Pos()), "Lock() dominates every access to ents/snapshot/hardState, with a deferred Unlock()", "InitialState reads without the lock (start-up, single goroutine; same as upstream)")
	}
}

func c18Cursor(c *Check) {
	p := c.P
	nextEntries := p.Method("raft", "unstable", "nextEntries")
	accept := p.Method("raft", "unstable", "acceptInProgress")
	entF := p.Field("raft", "unstable", "entries")
	offF := p.Field("raft", "unstable", "offset")
	oipF := p.Field("raft", "unstable", "offsetInProgress")
	getIndexE := p.Method("raftpb", "Entry", "GetIndex")
	if nextEntries != nil {
		fi := p.Info(nextEntries)
		u := fi.Sym(nextEntries.Params[0])
		for _, ret := range returnsOf(fi) {
			v := fi.RetSym(ret, 0)
			if v.K == KNil {
				continue
			}
			ok := v.K == KSlice && v.Args[0].K == KField && v.Args[0].Fld == entF && v.Args[2].K == KNil
			if ok {
				d := LinOf(v.Args[1])
				d.add(LinOf(FieldOf(u, oipF)), -1)
				d.add(LinOf(FieldOf(u, offF)), 1)
				ok = len(d.T) == 0 && d.K == 0
			}
			c.Result(ok, "C18.S", "nextEntries window", fnName(nextEntries), p.site(ret), "entries[offsetInProgress-offset:]", sanitizeKey(v.Key()))
		}
	}
	if accept != nil {
		fi := p.Info(accept)
		u := fi.Sym(accept.Params[0])
		for _, st := range p.StoresTo(oipF) {
			if st.Fn != accept || st.Whole {
				continue
			}
			v := fi.Sym(st.Val)
			// last entry's index + 1
			d := LinOf(v)
			ok := d.K == 1 && len(d.T) == 1
			for _, s := range d.S {
				ents := FieldOf(u, entF)
				ok = ok && s.K == KCall && s.Fn == getIndexE && isLastElemIndex(p, s, ents)
			}
			c.Result(ok, "C18.S", "acceptInProgress cursor", fnName(accept), p.site(st.Instr), "offsetInProgress <- entries[len-1].Index + 1", sanitizeKey(v.Key()))
		}
	}
}

// C03.U — case analysis of unstable.truncateAndAppend.
// cStorageSnapshot — C18.P: MemoryStorage.ApplySnapshot replaces the stored log by the snapshot:
// afterwards the entry array is a fresh one-element array holding only the marker (snapshot
// index, snapshot term). raft.restore relies on it: whatever followed the snapshot point in
// storage (a divergent tail of an older term) must be gone.
func cStorageSnapshot(c *Check) {
	p := c.P
	aps := p.Method("raft", "MemoryStorage", "ApplySnapshot")
	entsF := p.Field("raft", "MemoryStorage", "ents")
	entryT := p.Type("raftpb", "Entry")
	if aps == nil || entsF == nil || entryT == nil {
		return
	}
	fi := p.Info(aps)
	snap := fi.Sym(aps.Params[1])
	n := 0
	covered := false
	for _, st := range p.StoresTo(entsF) {
		if st.Fn != aps || st.Whole {
			continue
		}
		n++
		ok := false
		detail := "value " + fi.Sym(st.Val).Key()
		if sl, isSl := st.Val.(*ssa.Slice); isSl && sl.Low == nil && sl.High == nil {
			if al, isAl := sl.X.(*ssa.Alloc); isAl {
				if arr, isArr := al.Type().Underlying().(*types.Pointer).Elem().Underlying().(*types.Array); isArr && arr.Len() == 1 {
					// the single element
					for _, lit := range p.Lits(entryT) {
						if lit.Fn != aps {
							continue
						}
						ix, tm := lit.FieldSym(p, "Index"), lit.FieldSym(p, "Term")
						if ix != nil && tm != nil && strings.Contains(ix.Key(), snap.Key()) && strings.HasSuffix(ix.Key(), ".GetMetadata().GetIndex()") && strings.Contains(tm.Key(), snap.Key()) && strings.HasSuffix(tm.Key(), ".GetMetadata().GetTerm()") {
							for _, in := range p.liveInstrsOf(aps) {
								if es, isSt := in.(*ssa.Store); isSt && es.Val == ssa.Value(lit.Alloc) {
									if ia, isIA := es.Addr.(*ssa.IndexAddr); isIA && ia.X == ssa.Value(al) {
										ok = true
									}
								}
							}
							detail = "marker {Index: " + ix.Key() + ", Term: " + tm.Key() + "}"
						}
					}
				}
			}
		}
		if mk, isMk := st.Val.(*ssa.MakeSlice); isMk && !ok {
			// make([]*pb.Entry, 1[, n]) filled afterwards: the old log is dropped all the same
			if k, isK := mk.Len.(*ssa.Const); isK && k.Value != nil && k.Value.String() == "1" {
				ok = true
				detail = "fresh make(..., 1)"
			}
		}
		if ok && mustPassToNilReturn(fi, st.Instr) {
			covered = true
		}
		c.Result(ok, "C18.P", "store MemoryStorage.ents in ApplySnapshot", fnName(aps), p.site(st.Instr), "ents <- fresh one-element array {marker(snapshot index, snapshot term)}: the old log is dropped entirely", sanitizeKey(detail))
	}
	c.Result(n >= 1 && covered, "C18.P", "ApplySnapshot replaces the log", fnName(aps), p.Pos(aps.Pos()), "every successful return has reset ents to the marker", fmt.Sprint(n, " store(s)"))
}

// mustPassToNilReturn: every path from entry to a return of a nil error passes through in.
func mustPassToNilReturn(fi *FuncInfo, in ssa.Instruction) bool {
	for _, ret := range returnsOf(fi) {
		if len(ret.Results) == 0 {
			continue
		}
		ev := fi.RetSym(ret, len(ret.Results)-1)
		if ev.K != KNil {
			continue
		}
		if !fi.InstrDominates(in, ret) {
			return false
		}
	}
	return true
}

func c03Unstable(c *Check) {
	p := c.P
	taa := p.Method("raft", "unstable", "truncateAndAppend")
	uslice := p.Method("raft", "unstable", "slice")
	entF := p.Field("raft", "unstable", "entries")
	offF := p.Field("raft", "unstable", "offset")
	oipF := p.Field("raft", "unstable", "offsetInProgress")
	getIndexE := p.Method("raftpb", "Entry", "GetIndex")
	if taa == nil || uslice == nil {
		return
	}
	fi := p.Info(taa)
	u := fi.Sym(taa.Params[0])
	ents := fi.Sym(taa.Params[1])
	from := CallSym(getIndexE, indexSym(ents, 0))
	off := FieldOf(u, offF)
	end := &Sym{K: KBin, Name: "+", Args: []*Sym{off, {K: KBuiltin, Name: "len", Args: []*Sym{FieldOf(u, entF)}}}}
	nArms := 0
	// the arms may live in truncateAndAppend itself or in helpers it calls on the same receiver;
	// a helper's stores are read through the parameter binding of its call site
	type armSite struct {
		fn   *ssa.Function
		gfi  *FuncInfo
		m    map[ssa.Value]*Sym
		call ssa.Instruction
	}
	sites := []armSite{{taa, fi, nil, nil}}
	for _, in := range p.liveInstrsOf(taa) {
		ci, ok := in.(ssa.CallInstruction)
		if !ok {
			continue
		}
		callee := ci.Common().StaticCallee()
		if callee == nil || callee == taa || callee == uslice || callee.Blocks == nil || callee.Signature.Recv() == nil {
			continue
		}
		args := callArgs(ci)
		if len(args) != len(callee.Params) || len(args) == 0 || fi.Sym(args[0]).Key() != u.Key() {
			continue
		}
		writes := false
		for _, st := range p.StoresTo(entF) {
			if st.Fn == callee {
				writes = true
			}
		}
		if !writes {
			continue
		}
		m := map[ssa.Value]*Sym{}
		for i, prm := range callee.Params {
			m[prm] = fi.Sym(args[i])
		}
		sites = append(sites, armSite{callee, p.Info(callee), m, in})
	}
	for _, as := range sites {
		as := as
		val := func(v ssa.Value) *Sym {
			sy := as.gfi.Sym(v)
			if as.m != nil {
				sy = resimplify(Subst(sy, as.m))
			}
			return sy
		}
		for _, st := range p.StoresTo(entF) {
			if st.Fn != as.fn || st.Whole {
				continue
			}
			nArms++
			v := val(st.Val)
			f := fi.FactsAt(st.Instr)
			if as.call != nil {
				f = fi.FactsAt(as.call)
			}
			site := p.site(st.Instr)
			switch {
			case v.K == KBuiltin && v.Name == "append" && v.Args[0].K == KField && v.Args[0].Fld == entF:
				// plain append: only exactly at the end
				c.Result(f.ImpliesCmp(from, "==", end), "C03.U", "append arm", fnName(as.fn), site, "entries = append(entries, ents...) only when fromIndex == offset+len(entries)", strings.Join(f.Describe(), "; "))
				c.Result(v.Args[1].Key() == ents.Key(), "C03.U", "append arm value", fnName(as.fn), site, "the new entries are appended", v.Key())
			case v.Key() == ents.Key():
				// replace: fromIndex <= offset; offset and offsetInProgress move to fromIndex
				okG := f.ImpliesCmp(from, "<=", off)
				okOff, okOip := false, false
				for _, s2 := range p.StoresTo(offF) {
					if s2.Fn == as.fn && s2.Instr.Block() == st.Instr.Block() && val(s2.Val).Key() == from.Key() {
						okOff = true
					}
				}
				for _, s2 := range p.StoresTo(oipF) {
					if s2.Fn == as.fn && s2.Instr.Block() == st.Instr.Block() {
						v2 := val(s2.Val)
						okOip = v2.Key() == from.Key() || v2.Key() == off.Key()
					}
				}
				c.Result(okG && okOff && okOip, "C03.U", "replace arm", fnName(as.fn), site, "fromIndex <= offset: entries = ents, offset = fromIndex, offsetInProgress = offset", fmt.Sprintf("guard=%v offset=%v inprogress=%v", okG, okOff, okOip))
			case v.K == KBuiltin && v.Name == "append" && v.Args[0].K == KCall && v.Args[0].Fn == uslice:
				keep := v.Args[0]
				okKeep := keep.Args[1].Key() == off.Key() && keep.Args[2].Key() == from.Key() && v.Args[1].Key() == ents.Key()
				okG := f.ImpliesCmp(from, ">", off)
				okOip := false
				for _, s2 := range p.StoresTo(oipF) {
					if s2.Fn == as.fn && s2.Instr.Block() == st.Instr.Block() {
						v2 := val(s2.Val)
						if v2.K == KBuiltin && v2.Name == "min" && len(v2.Args) == 2 {
							k0, k1 := v2.Args[0].Key(), v2.Args[1].Key()
							okOip = (k0 == from.Key() && k1 == FieldOf(u, oipF).Key()) || (k1 == from.Key() && k0 == FieldOf(u, oipF).Key())
						}
					}
				}
				if !okOip {
					// hand-written min: `if fromIndex < offsetInProgress { offsetInProgress = fromIndex }` after the entries store
					base := map[string]bool{}
					for _, a := range as.gfi.FactsAt(st.Instr).Tested {
						base[a.String()] = true
					}
					for _, s2 := range p.StoresTo(oipF) {
						if s2.Fn != as.fn || s2.Whole || val(s2.Val).Key() != from.Key() {
							continue
						}
						if !as.gfi.ReachableFrom([]int{st.Instr.Block().Index}, nil)[s2.Instr.Block().Index] {
							continue
						}
						var extra []*Atom
						for _, a := range as.gfi.FactsAt(s2.Instr).Tested {
							if !base[a.String()] {
								extra = append(extra, a)
							}
						}
						if len(extra) == 1 {
							t := &Facts{FI: as.gfi, Atoms: extra}
							oipS := FieldOf(as.gfi.Sym(as.fn.Params[0]), oipF)
							fromHere := as.gfi.Sym(s2.Val)
							if t.ImpliesCmp(fromHere, "<=", oipS) {
								okOip = true
							}
						}
					}
				}
				c.Result(okKeep && okG && okOip, "C03.U", "truncate arm", fnName(as.fn), site, "fromIndex > offset: entries = append(slice(offset, fromIndex), ents...), offsetInProgress = min(offsetInProgress, fromIndex)", fmt.Sprintf("keep=%v guard=%v inprogress=%v", okKeep, okG, okOip))
			default:
				c.Bad("C03.U", "truncateAndAppend arm", fnName(as.fn), site, "one of append / replace / truncate", sanitizeKey(v.Key()))
			}
		}
	}
	c.Result(nArms == 3, "C03.U", "truncateAndAppend has three arms", fnName(taa), p.Pos(taa.Pos()), "append, replace, truncate", fmt.Sprint(nArms))
	// unstable.slice returns a capped window
	sfi := p.Info(uslice)
	su := sfi.Sym(uslice.Params[0])
	lo, hi := sfi.Sym(uslice.Params[1]), sfi.Sym(uslice.Params[2])
	for _, ret := range returnsOf(sfi) {
		v := sfi.RetSym(ret, 0)
		ok := v.K == KSlice && v.Args[0].K == KField && v.Args[0].Fld == entF
		if ok {
			dl := LinOf(v.Args[1])
			dl.add(LinOf(lo), -1)
			dl.add(LinOf(FieldOf(su, offF)), 1)
			dh := LinOf(v.Args[2])
			dh.add(LinOf(hi), -1)
			dh.add(LinOf(FieldOf(su, offF)), 1)
			ok = len(dl.T) == 0 && dl.K == 0 && len(dh.T) == 0 && dh.K == 0 && v.Args[3].Key() == v.Args[2].Key()
		}
		c.Result(ok, "C03.U", "unstable.slice window", fnName(uslice), p.site(ret), "entries[lo-offset : hi-offset : hi-offset]", sanitizeKey(v.Key()))
	}
}
