package main

import (
	"encoding/json"
	"fmt"
	"os"
	"os/exec"
	"path/filepath"
	"sort"
	"strings"
	"sync"
)

// childResult is what a variant / audit child process reports on stdout.
type childResult struct {
	Variant  string        `json:"variant"`
	Obs      []*Obligation `json:"obs"`
	Failures []string      `json:"failures"`
	Funcs    int           `json:"funcs"`
}

// runVariantChild loads one build variant (or one audit overlay) in its own
// process (memory: one program per process) and prints the obligations.
func runVariantChild(repo string, rule *PropertyRule, variant string) int {
	v, ok := variants[variant]
	if !ok && strings.HasPrefix(variant, "audit:") {
		m, err := findMutant(strings.TrimPrefix(variant, "audit:"))
		if err != nil {
			fmt.Println(`{"failures":["` + err.Error() + `"]}`)
			return 0
		}
		path := filepath.Join(repo, m.File)
		src, err := os.ReadFile(path)
		if err != nil || strings.Count(string(src), m.Find) != 1 {
			out, _ := json.Marshal(childResult{Variant: variant, Failures: []string{"neutraliser not applicable: pattern not found exactly once in " + m.File}})
			fmt.Println(string(out))
			return 0
		}
		mod := strings.Replace(string(src), m.Find, m.Replace, 1)
		if m.Pre != "" {
			// auxiliary edit needed for the variant to compile (an import, an extracted helper)
			var pres map[string]struct{ Kind, Find, Replace, Text string }
			b, _ := os.ReadFile(filepath.Join(verifDir(), "checker", "audit", "pre.json"))
			_ = json.Unmarshal(b, &pres)
			pe, okP := pres[m.Pre]
			switch {
			case okP && pe.Kind == "append":
				mod += pe.Text
			case okP && pe.Kind == "replace" && strings.Count(mod, pe.Find) == 1:
				mod = strings.Replace(mod, pe.Find, pe.Replace, 1)
			default:
				out, _ := json.Marshal(childResult{Variant: variant, Failures: []string{"neutraliser not applicable: auxiliary edit " + m.Pre + " not applicable in " + m.File}})
				fmt.Println(string(out))
				return 0
			}
		}
		v = Variant{Name: variant, Overlay: map[string][]byte{path: []byte(mod)}}
		ok = true
	}
	if !ok {
		fmt.Println(`{"failures":["unknown variant"]}`)
		return 0
	}
	res := childResult{Variant: variant}
	p, err := Load(repo, v)
	if err != nil {
		res.Failures = append(res.Failures, "load failed ("+variant+"): "+err.Error())
	} else {
		c, fails := runOnProg(p, rule)
		res.Obs = c.Obs
		res.Failures = fails
		res.Funcs = len(p.RuleFuncs)
		if !strings.HasPrefix(variant, "audit:") {
			res.Failures = append(res.Failures, checkFloors(rule.ID, c)...)
		}
	}
	out, _ := json.Marshal(res)
	fmt.Println(string(out))
	return 0
}

type Mutant struct {
	Name    string   `json:"name"`
	File    string   `json:"file"`
	Find    string   `json:"find"`
	Replace string   `json:"replace"`
	Expect  []string `json:"expect"`
	Silent  []string `json:"silent"`
	Pre     string   `json:"pre"`
	Note    string   `json:"note"`
}

func loadMutants() ([]Mutant, error) {
	b, err := os.ReadFile(filepath.Join(verifDir(), "checker", "audit", "mutants.json"))
	if err != nil {
		return nil, err
	}
	var ms []Mutant
	if err := json.Unmarshal(b, &ms); err != nil {
		return nil, err
	}
	return ms, nil
}

func findMutant(name string) (Mutant, error) {
	ms, err := loadMutants()
	if err != nil {
		return Mutant{}, err
	}
	for _, m := range ms {
		if m.Name == name {
			return m, nil
		}
	}
	return Mutant{}, fmt.Errorf("no neutraliser named %s", name)
}

func runChild(repo, prop, variant string) (*childResult, error) {
	exe, err := os.Executable()
	if err != nil {
		return nil, err
	}
	cmd := exec.Command(exe, "-property", prop, "-repo", repo, "-variant", variant)
	cmd.Env = os.Environ()
	out, err := cmd.Output()
	if err != nil {
		return nil, fmt.Errorf("child %s: %v", variant, err)
	}
	var res childResult
	// the JSON is the last line
	lines := strings.Split(strings.TrimSpace(string(out)), "\n")
	if err := json.Unmarshal([]byte(lines[len(lines)-1]), &res); err != nil {
		return nil, fmt.Errorf("child %s: bad output: %v", variant, err)
	}
	return &res, nil
}

// runThorough: the other build variants, then the sensitivity audit
// (DESIGN §3.6): every registered neutraliser of this property is applied as an
// in-memory overlay, must still type-check, and must turn some obligation
// violated; a neutraliser registered as behaviour-preserving must stay silent.
func runThorough(repo string, rule *PropertyRule, res *RunResult, p *Prog) {
	for _, vn := range []string{"with_tla", "386"} {
		cr, err := runChild(repo, rule.ID, vn)
		if err != nil {
			res.Failures = append(res.Failures, err.Error())
			continue
		}
		res.Variants = append(res.Variants, vn)
		res.Obs = append(res.Obs, cr.Obs...)
		for _, f := range cr.Failures {
			res.Failures = append(res.Failures, "["+vn+"] "+f)
		}
	}
	ms, err := loadMutants()
	if err != nil {
		res.Failures = append(res.Failures, "audit: cannot read neutralisers: "+err.Error())
		return
	}
	type job struct {
		m      Mutant
		expect bool
	}
	var jobs []job
	for _, m := range ms {
		for _, e := range m.Expect {
			if e == rule.ID {
				jobs = append(jobs, job{m, true})
			}
		}
		for _, e := range m.Silent {
			if e == rule.ID {
				jobs = append(jobs, job{m, false})
			}
		}
	}
	type outcome struct {
		Name     string   `json:"name"`
		Expect   string   `json:"expect"`
		Result   string   `json:"result"`
		Reported []string `json:"reported,omitempty"`
	}
	outcomes := make([]outcome, len(jobs))
	var wg sync.WaitGroup
	sem := make(chan struct{}, 6)
	for i, j := range jobs {
		wg.Add(1)
		go func(i int, j job) {
			defer wg.Done()
			sem <- struct{}{}
			defer func() { <-sem }()
			o := outcome{Name: j.m.Name, Expect: map[bool]string{true: "detected", false: "silent"}[j.expect]}
			cr, err := runChild(repo, rule.ID, "audit:"+j.m.Name)
			if err != nil {
				o.Result = "error: " + err.Error()
				outcomes[i] = o
				return
			}
			bad := 0
			for _, ob := range cr.Obs {
				if ob.Status == StViolated || ob.Status == StUndecided {
					bad++
					if len(o.Reported) < 3 {
						o.Reported = append(o.Reported, ob.Rule+" | "+ob.Construct+" | "+ob.Func+" @ "+ob.Site)
					}
				}
			}
			switch {
			case len(cr.Failures) > 0 && strings.Contains(strings.Join(cr.Failures, ";"), "not applicable"):
				o.Result = "not-applicable"
			case len(cr.Failures) > 0 && strings.Contains(strings.Join(cr.Failures, ";"), "load failed"):
				o.Result = "does-not-compile"
			case bad > 0 || len(cr.Failures) > 0:
				o.Result = "detected"
				if len(o.Reported) == 0 {
					o.Reported = cr.Failures
				}
			default:
				o.Result = "silent"
			}
			outcomes[i] = o
		}(i, j)
	}
	wg.Wait()
	sort.Slice(outcomes, func(a, b int) bool { return outcomes[a].Name < outcomes[b].Name })
	tried, detected, silentOK := 0, 0, 0
	for _, o := range outcomes {
		switch o.Result {
		case "not-applicable", "does-not-compile":
			continue
		}
		tried++
		if o.Expect == "detected" {
			if o.Result == "detected" {
				detected++
			} else {
				res.Failures = append(res.Failures, fmt.Sprintf("audit: insensitive rule: neutraliser %s was not detected (%s)", o.Name, o.Result))
			}
		} else {
			if o.Result == "silent" {
				silentOK++
			} else {
				res.Failures = append(res.Failures, fmt.Sprintf("audit: false alarm: behaviour-preserving variant %s was reported: %v", o.Name, o.Reported))
			}
		}
	}
	res.Audit = map[string]any{"tried": tried, "detected": detected, "behaviour_preserving_silent": silentOK, "outcomes": outcomes}
}
