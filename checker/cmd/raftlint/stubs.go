package main

func runFixtures(prop string) (fails []string, log []string) { return nil, nil }

func runThorough(repo string, rule *PropertyRule, res *RunResult, p *Prog) {}

func runVariantChild(repo string, rule *PropertyRule, variant string) int { return 0 }
