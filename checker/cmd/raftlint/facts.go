package main

import (
	"fmt"
	"go/constant"
	"go/token"
	"go/types"
	"sort"
	"strings"

	"golang.org/x/tools/go/ssa"
)

// ---- linear forms ------------------------------------------------------------

// Lin is Σ coef·term + K over opaque symbolic terms (keyed by Sym.Key()).
type Lin struct {
	T map[string]int64
	S map[string]*Sym
	K int64
}

func newLin() *Lin { return &Lin{T: map[string]int64{}, S: map[string]*Sym{}} }

func (l *Lin) addTerm(s *Sym, c int64) {
	k := s.Key()
	l.T[k] += c
	l.S[k] = s
	if l.T[k] == 0 {
		delete(l.T, k)
		delete(l.S, k)
	}
}

func (l *Lin) add(o *Lin, c int64) {
	for k, v := range o.T {
		l.T[k] += v * c
		l.S[k] = o.S[k]
		if l.T[k] == 0 {
			delete(l.T, k)
			delete(l.S, k)
		}
	}
	l.K += o.K * c
}

func (l *Lin) String() string {
	var ks []string
	for k := range l.T {
		ks = append(ks, k)
	}
	sort.Strings(ks)
	var b strings.Builder
	for i, k := range ks {
		c := l.T[k]
		if i > 0 && c >= 0 {
			b.WriteString("+")
		}
		if c == 1 {
			b.WriteString(k)
		} else if c == -1 {
			b.WriteString("-" + k)
		} else {
			fmt.Fprintf(&b, "%d*%s", c, k)
		}
	}
	if l.K != 0 || len(ks) == 0 {
		if l.K >= 0 && len(ks) > 0 {
			b.WriteString("+")
		}
		fmt.Fprintf(&b, "%d", l.K)
	}
	return b.String()
}

// LinOf flattens an integer symbol into a linear form.
func LinOf(s *Sym) *Lin {
	l := newLin()
	linAdd(l, s, 1)
	return l
}

func linAdd(l *Lin, s *Sym, c int64) {
	switch s.K {
	case KConst:
		if v, ok := constInt64(s.C); ok {
			l.K += c * v
			return
		}
	case KBin:
		switch s.Name {
		case "+":
			linAdd(l, s.Args[0], c)
			linAdd(l, s.Args[1], c)
			return
		case "-":
			linAdd(l, s.Args[0], c)
			linAdd(l, s.Args[1], -c)
			return
		case "*":
			if s.Args[0].K == KConst {
				if v, ok := constInt64(s.Args[0].C); ok {
					linAdd(l, s.Args[1], c*v)
					return
				}
			}
			if s.Args[1].K == KConst {
				if v, ok := constInt64(s.Args[1].C); ok {
					linAdd(l, s.Args[0], c*v)
					return
				}
			}
		}
	case KNeg:
		linAdd(l, s.Args[0], -c)
		return
	}
	l.addTerm(s, c)
}

// ---- atoms ---------------------------------------------------------------------

type AtomKind int

const (
	ALe   AtomKind = iota // L <= 0
	AEq                   // L == 0   (integers)
	ANe                   // L != 0
	ABool                 // symbol S is true (Neg: false)
	ASame                 // non-integer equality S == S2 (Neg: !=)
)

// Atom is one relational or boolean fact.
type Atom struct {
	K   AtomKind
	L   *Lin
	S   *Sym
	S2  *Sym
	Neg bool
	// provenance
	If    *ssa.If
	Loads []ssa.Instruction
}

func (a *Atom) String() string {
	switch a.K {
	case ALe:
		return a.L.String() + " <= 0"
	case AEq:
		return a.L.String() + " == 0"
	case ANe:
		return a.L.String() + " != 0"
	case ABool:
		if a.Neg {
			return "!" + a.S.Key()
		}
		return a.S.Key()
	case ASame:
		op := "=="
		if a.Neg {
			op = "!="
		}
		return a.S.Key() + op + a.S2.Key()
	}
	return "?"
}

// atomsOf converts a boolean symbol with polarity into atoms that all hold
// (conjunction). Disjunctions yield nothing (handled by PATHS/BOOLEXPR).
func atomsOf(s *Sym, pos bool) []*Atom {
	switch s.K {
	case KNot:
		return atomsOf(s.Args[0], !pos)
	case KConst:
		return nil
	case KBin:
		x, y := s.Args[0], s.Args[1]
		op := s.Name
		if !pos {
			switch op {
			case "==":
				op = "!="
			case "!=":
				op = "=="
			case "<":
				op = ">="
			case "<=":
				op = ">"
			case ">":
				op = "<="
			case ">=":
				op = "<"
			default:
				return nil
			}
		}
		intLike := looksInt(x) || looksInt(y)
		if intLike {
			d := newLin() // x - y
			linAdd(d, x, 1)
			linAdd(d, y, -1)
			switch op {
			case "<": // x - y + 1 <= 0
				d.K++
				return []*Atom{{K: ALe, L: d}}
			case "<=":
				return []*Atom{{K: ALe, L: d}}
			case ">": // y - x + 1 <= 0
				n := newLin()
				n.add(d, -1)
				n.K++
				return []*Atom{{K: ALe, L: n}}
			case ">=":
				n := newLin()
				n.add(d, -1)
				return []*Atom{{K: ALe, L: n}}
			case "==":
				return []*Atom{{K: AEq, L: d}}
			case "!=":
				return []*Atom{{K: ANe, L: d}}
			}
			return nil
		}
		switch op {
		case "==":
			return []*Atom{orderSame(&Atom{K: ASame, S: x, S2: y})}
		case "!=":
			return []*Atom{orderSame(&Atom{K: ASame, S: x, S2: y, Neg: true})}
		}
		return nil
	}
	return []*Atom{{K: ABool, S: s, Neg: !pos}}
}

func orderSame(a *Atom) *Atom {
	if a.S.Key() > a.S2.Key() {
		a.S, a.S2 = a.S2, a.S
	}
	return a
}

// ---- fact sets ---------------------------------------------------------------

// Facts is the set of atoms known to hold at a program point.
type Facts struct {
	FI    *FuncInfo
	At    ssa.Instruction
	Atoms []*Atom
	// Dropped records atoms that were discarded because something between the
	// guard and the use may write what they read (KILL).
	Dropped []string
	// Tested holds every branch atom on the dominating edges, killed or not:
	// "this condition was tested with this outcome on every path to here".
	Tested []*Atom
	depth  int
}

// WasTested: the requirement matched a dominating branch outcome (possibly stale).
func (f *Facts) WasTested(r Req) bool {
	t := &Facts{FI: f.FI, At: f.At, Atoms: f.Tested}
	return t.holds(r)
}

// FactsAt computes DOM/EXIT facts for instruction in, with KILL applied.
func (fi *FuncInfo) FactsAt(in ssa.Instruction) *Facts {
	f := &Facts{FI: fi, At: in}
	if in.Block() == nil || !fi.Live(in) {
		return f
	}
	for _, ef := range fi.EdgeFacts(in.Block().Index) {
		cs := fi.Sym(ef.Cond)
		as := atomsOf(cs, ef.Pos)
		// a materialised short-circuit condition (`ok := a && b; if !ok {...}`): the literals its
		// formula forces under this outcome
		if cv, neg := stripNot(ef.Cond); isBoolPhi(cv) || fi.isHelperCall(cv) {
			if bf := fi.valueBF(cv, 0); bf != nil {
				for _, lt := range forcedLiterals(bf, ef.Pos != neg) {
					if lt.atom.Src != nil {
						as = append(as, atomsOf(lt.atom.Src, lt.atom.SrcPos == lt.pos)...)
					}
				}
			}
		}
		for _, a := range as {
			a.If = ef.If
			a.Loads = atomLoads(a)
			f.Tested = append(f.Tested, a)
			if k := fi.atomKilled(a, ef.If, in); k != nil {
				f.Dropped = append(f.Dropped, fmt.Sprintf("%s (killed by %s)", a, fi.P.InstrPos(k)))
				continue
			}
			f.Atoms = append(f.Atoms, a)
		}
	}
	return f
}

func atomLoads(a *Atom) []ssa.Instruction {
	var out []ssa.Instruction
	add := func(s *Sym) {
		if s != nil {
			out = append(out, allLoads(s)...)
		}
	}
	if a.L != nil {
		for _, s := range a.L.S {
			add(s)
		}
	}
	add(a.S)
	add(a.S2)
	return out
}

func atomSyms(a *Atom) []*Sym {
	var out []*Sym
	if a.L != nil {
		var ks []string
		for k := range a.L.S {
			ks = append(ks, k)
		}
		sort.Strings(ks)
		for _, k := range ks {
			out = append(out, a.L.S[k])
		}
	}
	if a.S != nil {
		out = append(out, a.S)
	}
	if a.S2 != nil {
		out = append(out, a.S2)
	}
	return out
}

// atomKilled: may anything executed after the atom's heap reads and before
// `use` overwrite what was read?
func (fi *FuncInfo) atomKilled(a *Atom, guard ssa.Instruction, use ssa.Instruction) ssa.Instruction {
	p := fi.P
	for _, s := range atomSyms(a) {
		if k := fi.symKilled(s, guard, use); k != nil {
			return k
		}
	}
	_ = p
	return nil
}

// symKilled checks every heap read in s against writes between that read (or
// `from`, if the read has no instruction) and `use`.
func (fi *FuncInfo) symKilled(s *Sym, from ssa.Instruction, use ssa.Instruction) ssa.Instruction {
	p := fi.P
	roots := map[ssa.Value]bool{}
	s.Walk(func(x *Sym) {
		if x.K == KAlloc && x.V != nil {
			roots[x.V] = true
		}
	})
	var killer ssa.Instruction
	s.Walk(func(x *Sym) {
		if killer != nil {
			return
		}
		for _, ld := range x.Loads {
			if ld.Parent() != fi.Fn {
				continue
			}
			locs := map[Loc]bool{}
			switch in := ld.(type) {
			case *ssa.Call:
				for _, callee := range p.Callees(in) {
					for l := range p.Effects(callee).Reads {
						locs[l] = true
					}
				}
			default:
				for _, l := range p.instrReads(ld) {
					locs[l] = true
				}
			}
			expandDeref(locs)
			if len(locs) == 0 {
				continue
			}
			if ld == use {
				continue
			}
			btw, ok := fi.Between(ld, use)
			if !ok {
				continue
			}
			if k := p.Killed(btw, locs, roots); k != nil {
				killer = k
				return
			}
		}
	})
	return killer
}

func expandDeref(locs map[Loc]bool) {
	for l := range locs {
		if f, ok := l.(*types.Var); ok && (curProg == nil || curProg.addrTaken()[f]) {
			locs[derefClass(f.Type())] = true
		}
	}
}

// curProg is the program being analysed (one per process).
var curProg *Prog

// ---- implication -------------------------------------------------------------

// leForms returns the facts as a list of linear forms each known to be <= 0.
func (f *Facts) leForms() []*Lin {
	var out []*Lin
	for _, a := range f.Atoms {
		switch a.K {
		case ALe:
			out = append(out, a.L)
		case AEq:
			out = append(out, a.L)
			n := newLin()
			n.add(a.L, -1)
			out = append(out, n)
		}
	}
	// unsigned non-negativity is not assumed; min/max structural facts:
	return out
}

// minMaxForms adds, for every min(...)/max(...) builtin occurring in goal,
// the defining inequalities min(a,b) <= a, min(a,b) <= b etc.
func minMaxForms(goal *Lin) []*Lin {
	var out []*Lin
	for _, s := range goal.S {
		s.Walk(func(x *Sym) {
			if x.K == KBuiltin && (x.Name == "min" || x.Name == "max") {
				for _, a := range x.Args {
					l := newLin()
					if x.Name == "min" { // min - a <= 0
						linAdd(l, x, 1)
						linAdd(l, a, -1)
					} else { // a - max <= 0
						linAdd(l, a, 1)
						linAdd(l, x, -1)
					}
					out = append(out, l)
				}
			}
		})
	}
	return out
}

// ImpliesLe: do the facts entail goal <= 0 ? Sound, incomplete: tries sums
// of up to three known forms.
func (f *Facts) ImpliesLe(goal *Lin) bool {
	if len(goal.T) == 0 {
		return goal.K <= 0
	}
	forms := append(f.leForms(), minMaxForms(goal)...)
	// goal <= 0 follows if goal - Σ forms is a constant <= 0
	check := func(sum *Lin) bool {
		d := newLin()
		d.add(goal, 1)
		d.add(sum, -1)
		return len(d.T) == 0 && d.K <= 0
	}
	for i := range forms {
		if check(forms[i]) {
			return true
		}
	}
	for i := range forms {
		for j := i + 1; j < len(forms); j++ {
			s := newLin()
			s.add(forms[i], 1)
			s.add(forms[j], 1)
			if check(s) {
				return true
			}
			for k := j + 1; k < len(forms); k++ {
				s3 := newLin()
				s3.add(s, 1)
				s3.add(forms[k], 1)
				if check(s3) {
					return true
				}
			}
		}
	}
	return false
}

// Cmp goal helpers over symbols: a OP b.
func (f *Facts) ImpliesCmp(a *Sym, op string, b *Sym) bool {
	d := newLin()
	linAdd(d, a, 1)
	linAdd(d, b, -1)
	switch op {
	case "<=":
		return f.ImpliesLe(d)
	case "<":
		d.K++
		return f.ImpliesLe(d)
	case ">=":
		n := newLin()
		n.add(d, -1)
		return f.ImpliesLe(n)
	case ">":
		n := newLin()
		n.add(d, -1)
		n.K++
		return f.ImpliesLe(n)
	case "==":
		n := newLin()
		n.add(d, -1)
		return f.ImpliesLe(d) && f.ImpliesLe(n)
	case "!=":
		d1 := newLin()
		d1.add(d, 1)
		d1.K++
		n := newLin()
		n.add(d, -1)
		n.K++
		if f.ImpliesLe(d1) || f.ImpliesLe(n) {
			return true
		}
		for _, a := range f.Atoms {
			if a.K == ANe && (linEqual(a.L, d) || linEqualNeg(a.L, d)) {
				return true
			}
		}
		return false
	}
	return false
}

func linEqual(a, b *Lin) bool {
	if a.K != b.K || len(a.T) != len(b.T) {
		return false
	}
	for k, v := range a.T {
		if b.T[k] != v {
			return false
		}
	}
	return true
}

func linEqualNeg(a, b *Lin) bool {
	n := newLin()
	n.add(b, -1)
	return linEqual(a, n)
}

// HasBool: is the boolean symbol known with the given polarity?
func (f *Facts) HasBool(match func(*Sym) bool, pos bool) *Atom {
	for _, a := range f.Atoms {
		if a.K == ABool && a.Neg == !pos && match(a.S) {
			return a
		}
	}
	return nil
}

// HasSame: non-integer (in)equality between symbols matched by predicates.
func (f *Facts) HasSame(m1, m2 func(*Sym) bool, eq bool) *Atom {
	for _, a := range f.Atoms {
		if a.K == ASame && a.Neg == !eq {
			if m1(a.S) && m2(a.S2) || m1(a.S2) && m2(a.S) {
				return a
			}
		}
	}
	return nil
}

// EnumFact: what is known about integer-typed symbol s versus constant c:
// returns +1 if s==c is implied, -1 if s!=c is implied, 0 otherwise.
func (f *Facts) EnumFact(s *Sym, c int64) int {
	cs := &Sym{K: KConst, C: constant.MakeInt64(c)}
	if f.ImpliesCmp(s, "==", cs) {
		return 1
	}
	if f.ImpliesCmp(s, "!=", cs) {
		return -1
	}
	// s == c' with c' != c
	for _, a := range f.Atoms {
		if a.K == AEq && len(a.L.T) == 1 {
			for k, coef := range a.L.T {
				if k == s.Key() && (coef == 1 || coef == -1) {
					v := -a.L.K * coef
					if v != c {
						return -1
					}
				}
			}
		}
	}
	return 0
}

func (f *Facts) Describe() []string {
	var out []string
	for _, a := range f.Atoms {
		pos := "-"
		if a.If != nil {
			pos = f.FI.P.InstrPos(a.If)
		}
		out = append(out, fmt.Sprintf("%s  [%s]", a, pos))
	}
	return out
}

// callMatcher builds a predicate matching a call symbol to the given function.
func isCallTo(fn *ssa.Function) func(*Sym) bool {
	return func(s *Sym) bool { return s.K == KCall && s.Fn == fn && fn != nil }
}

func isKey(key string) func(*Sym) bool {
	return func(s *Sym) bool { return s.Key() == key }
}

func anySym(*Sym) bool { return true }

var _ = token.ADD

// looksInt: the symbol denotes an integer (by type or by construction).
func looksInt(s *Sym) bool {
	if s == nil {
		return false
	}
	if s.Typ != nil && isIntType(s.Typ) {
		return true
	}
	switch s.K {
	case KConst:
		return s.C != nil && s.C.Kind() == constant.Int
	case KBin:
		switch s.Name {
		case "+", "-", "*", "/", "%":
			return true
		}
	case KBuiltin:
		switch s.Name {
		case "len", "cap":
			return true
		case "min", "max":
			return len(s.Args) > 0 && looksInt(s.Args[0])
		}
	case KNeg:
		return true
	}
	return false
}

func stripNot(v ssa.Value) (ssa.Value, bool) {
	neg := false
	for {
		u, ok := v.(*ssa.UnOp)
		if !ok || u.Op != token.NOT {
			return v, neg
		}
		v = u.X
		neg = !neg
	}
}

func isBoolPhi(v ssa.Value) bool {
	ph, ok := v.(*ssa.Phi)
	if !ok {
		return false
	}
	b, ok := ph.Type().Underlying().(*types.Basic)
	return ok && b.Kind() == types.Bool
}

type bfLiteral struct {
	atom *BAtom
	pos  bool
}

// forcedLiterals: atoms whose truth value is forced when f has value val (conjuncts of a true
// conjunction, disjuncts of a false disjunction).
func forcedLiterals(f *BF, val bool) []bfLiteral {
	switch f.Op {
	case 'a':
		return []bfLiteral{{f.Atom, val}}
	case '!':
		return forcedLiterals(f.Kids[0], !val)
	case '&':
		if val {
			var out []bfLiteral
			for _, k := range f.Kids {
				out = append(out, forcedLiterals(k, true)...)
			}
			return out
		}
	case '|':
		if !val {
			var out []bfLiteral
			for _, k := range f.Kids {
				out = append(out, forcedLiterals(k, false)...)
			}
			return out
		}
	}
	return nil
}

// isHelperCall: a call of a pure boolean helper whose body is available as a formula.
func (fi *FuncInfo) isHelperCall(v ssa.Value) bool {
	call, ok := v.(*ssa.Call)
	if !ok {
		return false
	}
	callee := call.Common().StaticCallee()
	return callee != nil && fi.P.helperBF(callee) != nil
}

// conjLiterals: f (under value val) as a conjunction of literals; complete=false if it is not one.
func conjLiterals(f *BF, val bool) (lits []bfLiteral, complete bool) {
	switch f.Op {
	case 'a':
		return []bfLiteral{{f.Atom, val}}, true
	case '!':
		return conjLiterals(f.Kids[0], !val)
	case 'c':
		return nil, f.Val == val
	case '&', '|':
		if (f.Op == '&') != val {
			return nil, false
		}
		for _, k := range f.Kids {
			l, ok := conjLiterals(k, val)
			if !ok {
				return nil, false
			}
			lits = append(lits, l...)
		}
		return lits, true
	}
	return nil, false
}
