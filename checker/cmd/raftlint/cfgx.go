package main

import (
	"go/types"

	"golang.org/x/tools/go/ssa"
)

// FuncInfo is the pruned control-flow view of one function: every block is cut
// after a call that cannot return (Logger.Panic*/Fatal*, functions that never
// return) and dominators are recomputed on what remains. See DESIGN §2.2.
type FuncInfo struct {
	P     *Prog
	Fn    *ssa.Function
	Cut   []int   // per block index: index of the no-return instruction, or -1
	Reach []bool  // reachable from entry in the pruned graph
	Succs [][]int // pruned successors
	Preds [][]int
	Idom  []int // immediate dominator (block index), -1 for entry/unreachable
	order []int // reverse postorder
	rpo   []int // block -> rpo number

	syms    map[ssa.Value]*Sym
	bfCache map[ssa.Value]*BF
}

var noReturnLoggerMethods = map[string]bool{"Panic": true, "Panicf": true, "Fatal": true, "Fatalf": true}

// noReturnFuncs is computed lazily: functions of ours with no reachable return.
func (p *Prog) isNoReturnCall(in ssa.Instruction, noret map[*ssa.Function]bool) bool {
	c, ok := in.(*ssa.Call)
	if !ok {
		return false
	}
	cc := c.Common()
	if cc.IsInvoke() {
		if noReturnLoggerMethods[cc.Method.Name()] && p.isLoggerIface(cc.Value.Type()) {
			return true
		}
		return false
	}
	if callee := cc.StaticCallee(); callee != nil {
		if noret != nil && noret[callee] {
			return true
		}
		// methods named Panic*/Fatal* on a type implementing Logger (DefaultLogger)
		if noReturnLoggerMethods[callee.Name()] && callee.Signature.Recv() != nil {
			if lt := p.loggerIface(); lt != nil && types.Implements(callee.Signature.Recv().Type(), lt) {
				return true
			}
		}
		if callee.Pkg != nil && callee.Pkg.Pkg.Path() == "os" && callee.Name() == "Exit" {
			return true
		}
	}
	return false
}

func (p *Prog) loggerIface() *types.Interface {
	n := p.Type("raft", "Logger")
	if n == nil {
		return nil
	}
	it, _ := n.Underlying().(*types.Interface)
	return it
}

func (p *Prog) isLoggerIface(t types.Type) bool {
	n := p.Type("raft", "Logger")
	if n == nil {
		return false
	}
	return types.Identical(t, n)
}

var noRetCache = map[*Prog]map[*ssa.Function]bool{}

func (p *Prog) noReturnSet() map[*ssa.Function]bool {
	if s, ok := noRetCache[p]; ok {
		return s
	}
	s := map[*ssa.Function]bool{}
	noRetCache[p] = s
	for changed := true; changed; {
		changed = false
		for _, fn := range p.Funcs {
			if s[fn] {
				continue
			}
			fi := p.buildInfo(fn, s)
			hasRet := false
			for i, b := range fn.Blocks {
				if !fi.Reach[i] || fi.Cut[i] >= 0 {
					continue
				}
				if _, ok := b.Instrs[len(b.Instrs)-1].(*ssa.Return); ok {
					hasRet = true
				}
			}
			if !hasRet {
				// only functions that end in explicit panics; infinite loops are not in this code base
				s[fn] = true
				changed = true
			}
		}
	}
	return s
}

// Info returns the (cached) pruned CFG info of fn.
func (p *Prog) Info(fn *ssa.Function) *FuncInfo {
	if fi, ok := p.finfo[fn]; ok {
		return fi
	}
	fi := p.buildInfo(fn, p.noReturnSet())
	p.finfo[fn] = fi
	return fi
}

func (p *Prog) buildInfo(fn *ssa.Function, noret map[*ssa.Function]bool) *FuncInfo {
	n := len(fn.Blocks)
	fi := &FuncInfo{P: p, Fn: fn, Cut: make([]int, n), Reach: make([]bool, n), Succs: make([][]int, n), Preds: make([][]int, n), Idom: make([]int, n), rpo: make([]int, n), syms: map[ssa.Value]*Sym{}}
	for i, b := range fn.Blocks {
		fi.Cut[i] = -1
		for j, in := range b.Instrs {
			if p.isNoReturnCall(in, noret) {
				fi.Cut[i] = j
				break
			}
		}
		if fi.Cut[i] < 0 {
			for _, s := range b.Succs {
				fi.Succs[i] = append(fi.Succs[i], s.Index)
			}
		}
	}
	// reachability + postorder
	var post []int
	var dfs func(int)
	dfs = func(b int) {
		fi.Reach[b] = true
		for _, s := range fi.Succs[b] {
			if !fi.Reach[s] {
				dfs(s)
			}
		}
		post = append(post, b)
	}
	if n > 0 {
		dfs(0)
	}
	for i := range fi.Succs {
		if !fi.Reach[i] {
			fi.Succs[i] = nil
			continue
		}
		for _, s := range fi.Succs[i] {
			fi.Preds[s] = append(fi.Preds[s], i)
		}
	}
	for i := len(post) - 1; i >= 0; i-- {
		fi.rpo[post[i]] = len(fi.order)
		fi.order = append(fi.order, post[i])
	}
	// Cooper-Harvey-Kennedy
	for i := range fi.Idom {
		fi.Idom[i] = -1
	}
	if n == 0 {
		return fi
	}
	fi.Idom[0] = 0
	intersect := func(a, b int) int {
		for a != b {
			for fi.rpo[a] > fi.rpo[b] {
				a = fi.Idom[a]
			}
			for fi.rpo[b] > fi.rpo[a] {
				b = fi.Idom[b]
			}
		}
		return a
	}
	for changed := true; changed; {
		changed = false
		for _, b := range fi.order[1:] {
			nd := -1
			for _, pr := range fi.Preds[b] {
				if fi.Idom[pr] < 0 {
					continue
				}
				if nd < 0 {
					nd = pr
				} else {
					nd = intersect(pr, nd)
				}
			}
			if nd >= 0 && fi.Idom[b] != nd {
				fi.Idom[b] = nd
				changed = true
			}
		}
	}
	fi.Idom[0] = -1
	return fi
}

// Dominates reports whether block a dominates block b (reflexive).
func (fi *FuncInfo) Dominates(a, b int) bool {
	if !fi.Reach[a] || !fi.Reach[b] {
		return false
	}
	for {
		if a == b {
			return true
		}
		if b == 0 || fi.Idom[b] < 0 {
			return false
		}
		b = fi.Idom[b]
	}
}

// Live reports whether the instruction is reachable in the pruned CFG.
func (fi *FuncInfo) Live(in ssa.Instruction) bool {
	b := in.Block()
	if b == nil || !fi.Reach[b.Index] {
		return false
	}
	if c := fi.Cut[b.Index]; c >= 0 {
		return instrIndex(in) <= c
	}
	return true
}

func instrIndex(in ssa.Instruction) int {
	for i, x := range in.Block().Instrs {
		if x == in {
			return i
		}
	}
	return -1
}

// InstrDominates: a executes before b on every path reaching b.
func (fi *FuncInfo) InstrDominates(a, b ssa.Instruction) bool {
	if a.Block() == b.Block() {
		return instrIndex(a) < instrIndex(b)
	}
	return fi.Dominates(a.Block().Index, b.Block().Index)
}

// EdgeFact is a branch condition known to hold with the given polarity.
type EdgeFact struct {
	Cond ssa.Value
	Pos  bool
	If   *ssa.If
}

// EdgeFacts returns the branch conditions that hold on every path reaching
// block x (DOM and EXIT facts of DESIGN §2.2).
func (fi *FuncInfo) EdgeFacts(x int) []EdgeFact {
	var out []EdgeFact
	if !fi.Reach[x] {
		return nil
	}
	for t := x; t > 0 && t >= 0; t = fi.Idom[t] {
		var nonBack []int
		for _, pr := range fi.Preds[t] {
			if !fi.Dominates(t, pr) {
				nonBack = append(nonBack, pr)
			}
		}
		if len(nonBack) != 1 {
			continue
		}
		b := nonBack[0]
		blk := fi.Fn.Blocks[b]
		iff, ok := blk.Instrs[len(blk.Instrs)-1].(*ssa.If)
		if !ok {
			continue
		}
		s0, s1 := blk.Succs[0].Index, blk.Succs[1].Index
		if s0 == s1 {
			continue
		}
		if s0 == t {
			out = append(out, EdgeFact{iff.Cond, true, iff})
		} else if s1 == t {
			out = append(out, EdgeFact{iff.Cond, false, iff})
		}
	}
	return out
}

// ReachableFrom returns the set of blocks reachable from the given start
// blocks in the pruned CFG, not passing through blocks for which stop is true
// (stop blocks are included but not expanded).
func (fi *FuncInfo) ReachableFrom(starts []int, stop func(int) bool) map[int]bool {
	seen := map[int]bool{}
	var work []int
	for _, s := range starts {
		if fi.Reach[s] && !seen[s] {
			seen[s] = true
			work = append(work, s)
		}
	}
	for len(work) > 0 {
		b := work[len(work)-1]
		work = work[:len(work)-1]
		if stop != nil && stop(b) {
			continue
		}
		for _, s := range fi.Succs[b] {
			if !seen[s] {
				seen[s] = true
				work = append(work, s)
			}
		}
	}
	return seen
}

// Between returns the instructions that may execute strictly after the most
// recent execution of `from` and before `to`, on some path from `from` to `to`
// that does not execute `from` again (a re-execution produces a new value; the
// facts concern the latest one). Whole blocks are included when they lie on
// a cycle inside that region. ok is false when `to` cannot be reached.
func (fi *FuncInfo) Between(from, to ssa.Instruction) (out []ssa.Instruction, ok bool) {
	fb, tb := from.Block().Index, to.Block().Index
	fIdx, tIdx := instrIndex(from), instrIndex(to)
	if fb == tb && fIdx < tIdx {
		ins := fi.liveInstrs(fb)
		return ins[min(fIdx+1, len(ins)):min(tIdx, len(ins))], true
	}
	barrier := func(b int) bool { return b == fb }
	fwd := fi.ReachableFrom(fi.Succs[fb], barrier)
	if !fwd[tb] {
		return nil, false
	}
	// blocks that can reach tb without passing through fb
	bwd := map[int]bool{tb: true}
	work := []int{tb}
	for len(work) > 0 {
		b := work[len(work)-1]
		work = work[:len(work)-1]
		if b == fb {
			continue
		}
		for _, pr := range fi.Preds[b] {
			if !bwd[pr] {
				bwd[pr] = true
				work = append(work, pr)
			}
		}
	}
	ins := fi.liveInstrs(fb)
	out = append(out, ins[min(fIdx+1, len(ins)):]...)
	tbLoop := false
	if tb != fb {
		r := fi.ReachableFrom(fi.Succs[tb], barrier)
		tbLoop = r[tb]
	}
	for b := range fwd {
		if !bwd[b] {
			continue
		}
		bi := fi.liveInstrs(b)
		switch {
		case b == fb:
			// re-entering the block of `from`: only the part before `to` (which then precedes `from`)
			if tb == fb {
				out = append(out, bi[:min(tIdx, len(bi))]...)
			}
		case b == tb && !tbLoop:
			out = append(out, bi[:min(tIdx, len(bi))]...)
		default:
			out = append(out, bi...)
		}
	}
	return out, true
}

func (fi *FuncInfo) canReach(tb int) map[int]bool {
	bwd := map[int]bool{tb: true}
	work := []int{tb}
	for len(work) > 0 {
		b := work[len(work)-1]
		work = work[:len(work)-1]
		for _, pr := range fi.Preds[b] {
			if !bwd[pr] {
				bwd[pr] = true
				work = append(work, pr)
			}
		}
	}
	return bwd
}

func tbInLoop(fi *FuncInfo, b int) bool {
	r := fi.ReachableFrom(fi.Succs[b], nil)
	return r[b]
}

func (fi *FuncInfo) liveInstrs(b int) []ssa.Instruction {
	ins := fi.Fn.Blocks[b].Instrs
	if c := fi.Cut[b]; c >= 0 {
		return ins[:c+1]
	}
	return ins
}

// EntryTo returns the instructions that may execute before `to` on some path
// from function entry.
func (fi *FuncInfo) EntryTo(to ssa.Instruction) []ssa.Instruction {
	tb := to.Block().Index
	bwd := map[int]bool{tb: true}
	work := []int{tb}
	for len(work) > 0 {
		b := work[len(work)-1]
		work = work[:len(work)-1]
		for _, pr := range fi.Preds[b] {
			if !bwd[pr] {
				bwd[pr] = true
				work = append(work, pr)
			}
		}
	}
	var out []ssa.Instruction
	inLoop := tbInLoop(fi, tb)
	for b := range bwd {
		ins := fi.liveInstrs(b)
		if b == tb && !inLoop {
			out = append(out, ins[:min(instrIndex(to), len(ins))]...)
		} else {
			out = append(out, ins...)
		}
	}
	return out
}
