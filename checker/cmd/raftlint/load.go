package main

import (
	"fmt"
	"go/token"
	"go/types"
	"os"
	"sort"
	"strings"

	"golang.org/x/tools/go/callgraph"
	"golang.org/x/tools/go/callgraph/cha"
	"golang.org/x/tools/go/callgraph/vta"
	"golang.org/x/tools/go/packages"
	"golang.org/x/tools/go/ssa"
	"golang.org/x/tools/go/ssa/ssautil"
)

// Module path of the analysed repository. Everything the rules anchor on is
// resolved relative to it through the type checker.
const modPath = "go.etcd.io/raft/v3"

// Short names for the analysed packages.
var pkgPaths = map[string]string{
	"raft":       modPath,
	"confchange": modPath + "/confchange",
	"quorum":     modPath + "/quorum",
	"tracker":    modPath + "/tracker",
	"raftpb":     modPath + "/raftpb",
	"rafttest":   modPath + "/rafttest",
}

// Variant describes one build configuration of the repo that is loaded.
type Variant struct {
	Name    string
	Tags    string
	GOARCH  string
	Overlay map[string][]byte
}

// Prog is the loaded, type-checked, SSA-built program plus derived indexes.
type Prog struct {
	Variant Variant
	Dir     string
	Fset    *token.FileSet
	Pkgs    map[string]*packages.Package // short name -> package
	SSA     *ssa.Program
	SPkgs   map[string]*ssa.Package
	CG      *callgraph.Graph

	// all functions (incl. closures, methods) whose package is one of ours
	// except rafttest.
	Funcs []*ssa.Function
	// source functions in rule scope (raft, confchange, quorum, tracker), no raftpb.
	RuleFuncs []*ssa.Function

	finfo  map[*ssa.Function]*FuncInfo
	mods   map[*ssa.Function]*Effects
	anchor []string // anchor resolution failures

	statsFields     map[*types.Var]bool
	addrTakenFields map[*types.Var]bool
	paramCalls      map[*ssa.Function]map[int]bool
	supplyCache     map[[2]any]bool
	helperCache     map[*ssa.Function]*BF
	helperNilCache  map[*ssa.Function]*BF
	helperStrCache  map[*ssa.Function]*BF
	groupCache      map[string]*Check
}

func goEnv(v Variant) []string {
	env := []string{}
	for _, e := range os.Environ() {
		if strings.HasPrefix(e, "GOWORK=") || strings.HasPrefix(e, "GOFLAGS=") ||
			strings.HasPrefix(e, "GOPROXY=") || strings.HasPrefix(e, "GOSUMDB=") ||
			strings.HasPrefix(e, "GOTOOLCHAIN=") || strings.HasPrefix(e, "PATH=") ||
			strings.HasPrefix(e, "GOARCH=") {
			continue
		}
		env = append(env, e)
	}
	path := os.Getenv("PATH")
	env = append(env,
		"PATH=/opt/veriftools/go1.26.8/bin:"+path,
		"GOTOOLCHAIN=local", "GOFLAGS=-mod=mod", "GOPROXY=off", "GOSUMDB=off", "GOWORK=off")
	if v.GOARCH != "" {
		env = append(env, "GOARCH="+v.GOARCH)
	}
	return env
}

// Load type-checks the repo at dir and builds SSA and the VTA call graph.
// It fails closed: any package error is returned as an error.
func Load(dir string, v Variant) (*Prog, error) {
	fset := token.NewFileSet()
	cfg := &packages.Config{
		Mode:    packages.LoadAllSyntax,
		Dir:     dir,
		Fset:    fset,
		Env:     goEnv(v),
		Overlay: v.Overlay,
	}
	if v.Tags != "" {
		cfg.BuildFlags = []string{"-tags=" + v.Tags}
	}
	pkgs, err := packages.Load(cfg, "./...")
	if err != nil {
		return nil, fmt.Errorf("packages.Load: %w", err)
	}
	if len(pkgs) == 0 {
		return nil, fmt.Errorf("no packages loaded from %s", dir)
	}
	var errs []string
	packages.Visit(pkgs, nil, func(p *packages.Package) {
		for _, e := range p.Errors {
			errs = append(errs, e.Error())
		}
	})
	if len(errs) > 0 {
		sort.Strings(errs)
		if len(errs) > 10 {
			errs = errs[:10]
		}
		return nil, fmt.Errorf("type/load errors: %s", strings.Join(errs, "; "))
	}
	p := &Prog{Variant: v, Dir: dir, Fset: fset, Pkgs: map[string]*packages.Package{}, SPkgs: map[string]*ssa.Package{},
		finfo: map[*ssa.Function]*FuncInfo{}}
	byPath := map[string]*packages.Package{}
	for _, pk := range pkgs {
		byPath[pk.PkgPath] = pk
	}
	for short, path := range pkgPaths {
		pk := byPath[path]
		if pk == nil {
			return nil, fmt.Errorf("package %s not loaded", path)
		}
		p.Pkgs[short] = pk
	}
	prog, _ := ssautil.AllPackages(pkgs, ssa.InstantiateGenerics)
	prog.Build()
	p.SSA = prog
	for short, pk := range p.Pkgs {
		sp := prog.Package(pk.Types)
		if sp == nil {
			return nil, fmt.Errorf("no SSA package for %s", pk.PkgPath)
		}
		p.SPkgs[short] = sp
	}
	all := ssautil.AllFunctions(prog)
	p.CG = vta.CallGraph(all, cha.CallGraph(prog))
	ours := map[*types.Package]string{}
	for short, pk := range p.Pkgs {
		ours[pk.Types] = short
	}
	for fn := range all {
		if fn.Blocks == nil {
			continue
		}
		pk := fnPkg(fn)
		if pk == nil {
			continue
		}
		short, ok := ours[pk]
		if !ok || short == "rafttest" {
			continue
		}
		if fn.Synthetic != "" && !strings.Contains(fn.Synthetic, "instance") {
			// wrappers, bound method thunks: analysed through their targets
			continue
		}
		p.Funcs = append(p.Funcs, fn)
		if short != "raftpb" {
			p.RuleFuncs = append(p.RuleFuncs, fn)
		}
	}
	sortFuncs(p.Funcs)
	sortFuncs(p.RuleFuncs)
	curProg = p
	return p, nil
}

func sortFuncs(fs []*ssa.Function) {
	sort.Slice(fs, func(i, j int) bool { return fs[i].String() < fs[j].String() })
}

func fnPkg(fn *ssa.Function) *types.Package {
	for fn.Parent() != nil {
		fn = fn.Parent()
	}
	if fn.Pkg != nil {
		return fn.Pkg.Pkg
	}
	if o := fn.Object(); o != nil {
		return o.Pkg()
	}
	if fn.Origin() != nil {
		return fnPkg(fn.Origin())
	}
	return nil
}

// ---- anchors ---------------------------------------------------------------

func (p *Prog) anchorFail(format string, args ...any) {
	p.anchor = append(p.anchor, fmt.Sprintf(format, args...))
}

// Type returns the named type pkg.name.
func (p *Prog) Type(pkg, name string) *types.Named {
	pk := p.Pkgs[pkg]
	if pk == nil {
		p.anchorFail("package %s", pkg)
		return nil
	}
	o := pk.Types.Scope().Lookup(name)
	tn, ok := o.(*types.TypeName)
	if !ok {
		p.anchorFail("type %s.%s", pkg, name)
		return nil
	}
	n, _ := tn.Type().(*types.Named)
	if n == nil {
		if a, ok := tn.Type().(*types.Alias); ok {
			n, _ = types.Unalias(a).(*types.Named)
		}
	}
	if n == nil {
		p.anchorFail("type %s.%s not named", pkg, name)
	}
	return n
}

// Field returns the field object typ.field (struct type pkg.typ).
func (p *Prog) Field(pkg, typ, field string) *types.Var {
	n := p.Type(pkg, typ)
	if n == nil {
		return nil
	}
	st, ok := n.Underlying().(*types.Struct)
	if !ok {
		p.anchorFail("%s.%s is not a struct", pkg, typ)
		return nil
	}
	for i := 0; i < st.NumFields(); i++ {
		if st.Field(i).Name() == field {
			return st.Field(i)
		}
	}
	p.anchorFail("field %s.%s.%s", pkg, typ, field)
	return nil
}

// Func returns the SSA function for a package-level function pkg.name.
func (p *Prog) Func(pkg, name string) *ssa.Function {
	pk := p.Pkgs[pkg]
	if pk == nil {
		p.anchorFail("package %s", pkg)
		return nil
	}
	o, ok := pk.Types.Scope().Lookup(name).(*types.Func)
	if !ok {
		p.anchorFail("func %s.%s", pkg, name)
		return nil
	}
	fn := p.SSA.FuncValue(o)
	if fn == nil {
		p.anchorFail("func %s.%s has no SSA", pkg, name)
	}
	return fn
}

// Method returns the SSA function for method typ.name (either receiver kind).
func (p *Prog) Method(pkg, typ, name string) *ssa.Function {
	n := p.Type(pkg, typ)
	if n == nil {
		return nil
	}
	for i := 0; i < n.NumMethods(); i++ {
		m := n.Method(i)
		if m.Name() == name {
			fn := p.SSA.FuncValue(m)
			if fn == nil {
				p.anchorFail("method %s.%s.%s has no SSA", pkg, typ, name)
			}
			return fn
		}
	}
	p.anchorFail("method %s.%s.%s", pkg, typ, name)
	return nil
}

// Const returns the constant object pkg.name.
func (p *Prog) Const(pkg, name string) *types.Const {
	pk := p.Pkgs[pkg]
	if pk == nil {
		p.anchorFail("package %s", pkg)
		return nil
	}
	c, ok := pk.Types.Scope().Lookup(name).(*types.Const)
	if !ok {
		p.anchorFail("const %s.%s", pkg, name)
		return nil
	}
	return c
}

// ConstVal returns the int64 value of an integer constant.
func (p *Prog) ConstVal(pkg, name string) int64 {
	c := p.Const(pkg, name)
	if c == nil {
		return -1 << 40
	}
	v, ok := constInt64(c.Val())
	if !ok {
		p.anchorFail("const %s.%s not an integer", pkg, name)
		return -1 << 40
	}
	return v
}

// Pos renders a position relative to the repo dir.
func (p *Prog) Pos(pos token.Pos) string {
	if !pos.IsValid() {
		return "-"
	}
	ps := p.Fset.Position(pos)
	f := ps.Filename
	if rel, ok := strings.CutPrefix(f, p.Dir+"/"); ok {
		f = rel
	}
	return fmt.Sprintf("%s:%d:%d", f, ps.Line, ps.Column)
}

// InstrPos finds a usable position for an instruction (falling back to
// operands and then to the function).
func (p *Prog) InstrPos(in ssa.Instruction) string {
	if in == nil {
		return "-"
	}
	if in.Pos().IsValid() {
		return p.Pos(in.Pos())
	}
	var ops []*ssa.Value
	for _, op := range in.Operands(ops) {
		if *op != nil {
			if v, ok := (*op).(ssa.Instruction); ok && v.Pos().IsValid() {
				return p.Pos(v.Pos())
			}
		}
	}
	// nearest positioned instruction in the block
	if b := in.Block(); b != nil {
		for _, i2 := range b.Instrs {
			if i2.Pos().IsValid() {
				return p.Pos(i2.Pos()) + "(near)"
			}
		}
	}
	return p.Pos(in.Parent().Pos()) + "(func)"
}

func fnName(fn *ssa.Function) string {
	if fn == nil {
		return "<nil>"
	}
	s := fn.String()
	s = strings.ReplaceAll(s, modPath+"/", "")
	s = strings.ReplaceAll(s, modPath+".", "raft.")
	s = strings.ReplaceAll(s, modPath, "raft")
	return s
}

// isOurPath: packages whose code and fields the analysis reasons about: the
// analysed module, and the analyser's own control package.
func isOurPath(path string) bool {
	return strings.HasPrefix(path, modPath) || path == "fixtures"
}

// fieldOwner finds the named struct type that declares field f.
func (p *Prog) fieldOwner(f *types.Var) *types.Named {
	if f.Pkg() == nil {
		return nil
	}
	sc := f.Pkg().Scope()
	for _, name := range sc.Names() {
		tn, ok := sc.Lookup(name).(*types.TypeName)
		if !ok {
			continue
		}
		n, ok := tn.Type().(*types.Named)
		if !ok {
			continue
		}
		if st, ok := n.Underlying().(*types.Struct); ok {
			for i := 0; i < st.NumFields(); i++ {
				if st.Field(i) == f {
					return n
				}
			}
		}
	}
	return nil
}
