package main

import (
	"fmt"
	"go/types"
	"strings"

	"golang.org/x/tools/go/ssa"
)

// C09 — snapshot install never rolls back or forks a node.
func c09Snapshot(c *Check) {
	c09Install(c)
	// C09.L: leader side
	c09Leader(c)
	c09Promotable(c)
}

// c09Install: the receiving side (guards of raft.restore, new log base).
func c09Install(c *Check) {
	p := c.P
	restore := p.Method("raft", "raft", "restore")
	lrestore := p.Method("raft", "raftLog", "restore")
	urestore := p.Method("raft", "unstable", "restore")
	matchTerm := p.Method("raft", "raftLog", "matchTerm")
	ccRestore := p.Func("confchange", "Restore")
	switchTo := p.Method("raft", "raft", "switchToConfig")
	mkTracker := p.Func("tracker", "MakeProgressTracker")
	stateF := p.Field("raft", "raft", "state")
	idF := p.Field("raft", "raft", "id")
	trkF := p.Field("raft", "raft", "trk")
	committedF := p.Field("raft", "raftLog", "committed")
	follower := p.ConstVal("raft", "StateFollower")
	if restore == nil || lrestore == nil || urestore == nil || matchTerm == nil {
		return
	}
	fi := p.Info(restore)
	r := fi.Sym(restore.Params[0])
	s := fi.Sym(restore.Params[1])
	calls := p.CallsIn(restore, lrestore)
	c.Result(len(calls) >= 1, "C09.G", "raft.restore installs through raftLog.restore", fnName(restore), p.Pos(restore.Pos()), "exactly one install site", fmt.Sprint(len(calls)))
	for _, ci := range calls {
		site := p.site(ci)
		rl := fi.Sym(callArgs(ci)[0])
		arg := fi.Sym(callArgs(ci)[1])
		c.Result(arg.Key() == s.Key(), "C09.G", "installed snapshot is the one checked", fnName(restore), site, "raftLog.restore(s) with the guarded s", arg.Key())
		pr := p.Prove(fi, ci, []Req{ReqCmp(snapIndexSym(p, s), ">", FieldOf(rl, committedF))})
		c.Result(pr.OK, "C09.G", "install only above commit", fnName(restore), site, "s.index > committed", describeProof(pr), pr.Chain...)
		pr = p.Prove(fi, ci, []Req{ReqCmp(FieldOf(r, stateF), "==", constSym(follower))})
		c.Info(pr.OK, "C09.G.defensive", "install only as follower", fnName(restore), site, "r.state == StateFollower (defence in depth: handleSnapshot is reached only as follower)", describeProof(pr))
		id := &Sym{K: KLit, Typ: p.Type("raft", "entryID"), Args: []*Sym{snapTermSym(p, s), snapIndexSym(p, s)}}
		pr = p.Prove(fi, ci, []Req{ReqBool(CallSym(matchTerm, rl, id), false)})
		c.Result(pr.OK, "C09.G", "no install over a matching log", fnName(restore), site, "!matchTerm((s.term, s.index)): a log that already contains the snapshot point is kept", describeProof(pr), pr.Chain...)
		// membership: a boolean that is true only via `id == r.id` over the three ConfState sets
		okFound, detail := foundInConfState(p, fi, ci, r, idF)
		c.Info(okFound, "C09.G.defensive", "install only if the node is in the snapshot's configuration", fnName(restore), site, "found: r.id occurs in cs.Voters, cs.Learners or cs.VotersOutgoing (defence in depth)", detail)
		// C09.C: configuration rebuilt from the snapshot's ConfState over a fresh tracker
		var ccCall, swCall ssa.CallInstruction
		for _, x := range p.CallsIn(restore, ccRestore) {
			if fi.InstrDominates(ci, x) {
				ccCall = x
			}
		}
		for _, x := range p.CallsIn(restore, switchTo) {
			if ccCall != nil && fi.InstrDominates(ccCall, x) {
				swCall = x
			}
		}
		okC := ccCall != nil && swCall != nil && mustPassFrom(fi, ci, ccCall) && mustPassFrom(fi, ci, swCall)
		detailC := ""
		if ccCall != nil {
			args := callArgs(ccCall)
			cs := fi.Sym(args[1])
			// cs <- EnsureConfState(s.GetMetadata().GetConfState())
			okCS := strings.Contains(cs.Key(), s.Key()+".GetMetadata().GetConfState()")
			chg := fi.Sym(args[0])
			// Changer.Tracker <- r.trk which was just replaced by MakeProgressTracker
			freshTrk := false
			for _, st := range p.StoresTo(trkF) {
				if st.Fn == restore && st.Whole == false {
					v := fi.Sym(st.Val)
					if v.K == KCall && v.Fn == mkTracker && fi.InstrDominates(ci, st.Instr) && fi.InstrDominates(st.Instr, ccCall) {
						freshTrk = true
					}
				}
			}
			// r.trk is a struct-valued field: the store is a whole-struct store to &r.trk
			for _, in := range p.liveInstrsOf(restore) {
				if st, ok := in.(*ssa.Store); ok {
					if fa, ok := st.Addr.(*ssa.FieldAddr); ok && derefStruct(fa.X.Type()).Field(fa.Field) == trkF {
						v := fi.Sym(st.Val)
						if v.K == KCall && v.Fn == mkTracker && fi.InstrDominates(ci, st) && fi.InstrDominates(st, ccCall) {
							freshTrk = true
						}
					}
				}
			}
			okC = okC && okCS && freshTrk
			detailC = fmt.Sprintf("cs=%s changer=%s freshTracker=%v", sanitizeKey(cs.Key()), sanitizeKey(chg.Key()), freshTrk)
			if swCall != nil {
				sw := callArgs(swCall)
				a1, a2 := fi.Sym(sw[1]), fi.Sym(sw[2])
				okSw := a1.K == KExtract && a1.Idx == 0 && a2.K == KExtract && a2.Idx == 1 && a1.Args[0].V == ccCall.Value() && a2.Args[0].V == ccCall.Value()
				okC = okC && okSw
			}
		}
		c.Result(okC, "C09.C", "configuration rebuilt from the snapshot", fnName(restore), site, "after the install: confchange.Restore(fresh tracker, s.ConfState) then switchToConfig(its results), on every path to return true", detailC)
	}
	// C09.B: new log base
	lfi := p.Info(lrestore)
	ls := lfi.Sym(lrestore.Params[1])
	okCommit := false
	for _, st := range p.StoresTo(committedF) {
		if st.Fn == lrestore && !st.Whole && lfi.Sym(st.Val).Key() == snapIndexSym(p, ls).Key() && mustPass(lfi, st.Instr) {
			okCommit = true
		}
	}
	c.Result(okCommit, "C09.B", "raftLog.restore raises commit to the snapshot index", fnName(lrestore), p.Pos(lrestore.Pos()), "committed <- s.index on every path", "")
	ufi := p.Info(urestore)
	u := ufi.Sym(urestore.Params[0])
	us := ufi.Sym(urestore.Params[1])
	offF := p.Field("raft", "unstable", "offset")
	oipF := p.Field("raft", "unstable", "offsetInProgress")
	entF := p.Field("raft", "unstable", "entries")
	snapF := p.Field("raft", "unstable", "snapshot")
	sipF := p.Field("raft", "unstable", "snapshotInProgress")
	want := map[string]func(v *Sym) bool{
		"offset": func(v *Sym) bool {
			d := LinOf(v)
			d.add(LinOf(snapIndexSym(p, us)), -1)
			return len(d.T) == 0 && d.K == 1
		},
		"offsetInProgress": func(v *Sym) bool {
			if v.Key() == FieldOf(u, offF).Key() {
				return true
			}
			d := LinOf(v)
			d.add(LinOf(snapIndexSym(p, us)), -1)
			return len(d.T) == 0 && d.K == 1
		},
		"entries": func(v *Sym) bool { return v.K == KNil },
		"snapshot": func(v *Sym) bool {
			return strings.Contains(v.Key(), "proto.Clone("+us.Key()+")") || v.Key() == us.Key()
		},
		"snapshotInProgress": func(v *Sym) bool { return v.K == KConst && v.C != nil && v.C.String() == "false" },
	}
	for name, f := range map[string]*types.Var{"offset": offF, "offsetInProgress": oipF, "entries": entF, "snapshot": snapF, "snapshotInProgress": sipF} {
		ok := false
		detail := "no store"
		for _, st := range p.StoresTo(f) {
			if st.Fn != urestore || st.Whole {
				continue
			}
			v := ufi.Sym(st.Val)
			detail = name + " <- " + v.Key()
			ok = want[name](v) && mustPass(ufi, st.Instr)
		}
		c.Result(ok, "C09.B", "unstable.restore sets "+name, fnName(urestore), p.Pos(urestore.Pos()), "new base: offset=s.index+1, offsetInProgress=offset, entries=nil, snapshot=s, snapshotInProgress=false", detail)
	}
}

// C09.E — a node with a pending snapshot does not campaign.
func c09Promotable(c *Check) {
	p := c.P
	// C09.E: no campaigning with a pending snapshot
	promotable := p.Method("raft", "raft", "promotable")
	hasSnap := p.Method("raft", "raftLog", "hasNextOrInProgressSnapshot")
	if promotable != nil && hasSnap != nil {
		pfi := p.Info(promotable)
		for _, ret := range returnsOf(pfi) {
			code := pfi.valueBF(pfi.RetVal(ret, 0), 0)
			rr := pfi.Sym(promotable.Params[0])
			snap := bfSym(CallSym(hasSnap, FieldOf(rr, p.Field("raft", "raft", "raftLog"))))
			ok, why := bfImplies(code, bfNot(snap))
			c.Result(ok, "C09.E", "promotable excludes a pending snapshot", fnName(promotable), p.site(ret), "promotable() => !hasNextOrInProgressSnapshot()", code.String()+" "+why)
		}
	}
}

// mustPassFrom: every path from `from` to a normal return passes through `via`.
func mustPassFrom(fi *FuncInfo, from, via ssa.Instruction) bool {
	if !fi.InstrDominates(from, via) {
		return false
	}
	vb := via.Block().Index
	fb := from.Block().Index
	if fb == vb {
		return true
	}
	seen := fi.ReachableFrom(fi.Succs[fb], func(b int) bool { return b == vb })
	for b := range seen {
		if b == vb || fi.Cut[b] >= 0 {
			continue
		}
		ins := fi.Fn.Blocks[b].Instrs
		if ret, ok := ins[len(ins)-1].(*ssa.Return); ok {
			// returning false (not installed) is not the success path
			if len(ret.Results) == 1 {
				if k, ok := ret.Results[0].(*ssa.Const); ok && k.Value != nil && k.Value.String() == "false" {
					continue
				}
			}
			return false
		}
	}
	return true
}

// foundInConfState: the install is dominated by a boolean that can become true
// only under `x == r.id` with x ranging over slices stored in a local table
// that holds cs.Voters, cs.Learners and cs.VotersOutgoing.
func foundInConfState(p *Prog, fi *FuncInfo, at ssa.Instruction, r *Sym, idF *types.Var) (bool, string) {
	f := fi.FactsAt(at)
	var flag *ssa.Phi
	for _, a := range f.Atoms {
		if a.K == ABool && !a.Neg && a.S.K == KPhi {
			flag = a.S.V.(*ssa.Phi)
		}
	}
	if flag == nil {
		return false, "no membership flag dominates the install: {" + strings.Join(f.Describe(), "; ") + "}"
	}
	// every way the flag becomes true: a const-true edge guarded by id == r.id
	seen := map[*ssa.Phi]bool{}
	okAll := true
	nTrue := 0
	var visit func(ph *ssa.Phi)
	visit = func(ph *ssa.Phi) {
		if seen[ph] {
			return
		}
		seen[ph] = true
		for i, e := range ph.Edges {
			switch x := e.(type) {
			case *ssa.Phi:
				visit(x)
			case *ssa.Const:
				if x.Value != nil && x.Value.String() == "true" {
					nTrue++
					pred := ph.Block().Preds[i]
					guarded := false
					facts := fi.EdgeFacts(pred.Index)
					if iff, ok := pred.Instrs[len(pred.Instrs)-1].(*ssa.If); ok && fi.Cut[pred.Index] < 0 {
						facts = append(facts, EdgeFact{iff.Cond, pred.Succs[0] == ph.Block(), iff})
					}
					for _, ef := range facts {
						for _, a := range atomsOf(fi.Sym(ef.Cond), ef.Pos) {
							if a.K == AEq && len(a.L.T) == 2 && a.L.K == 0 {
								hasID, hasElem := false, false
								for _, s := range a.L.S {
									if s.Key() == FieldOf(r, idF).Key() {
										hasID = true
									}
									if s.K == KIndex {
										hasElem = true
									}
								}
								if hasID && hasElem {
									guarded = true
								}
							}
						}
					}
					if !guarded {
						okAll = false
					}
				}
			default:
				okAll = false
			}
		}
	}
	visit(flag)
	if nTrue == 0 || !okAll {
		return false, "membership flag can become true without an `id == r.id` test"
	}
	// the table of sets
	have := map[string]bool{}
	for _, in := range p.liveInstrsOf(fi.Fn) {
		st, ok := in.(*ssa.Store)
		if !ok {
			continue
		}
		if _, isIdx := st.Addr.(*ssa.IndexAddr); !isIdx {
			continue
		}
		v := fi.Sym(st.Val)
		if v.K == KField && v.Fld.Pkg() != nil && v.Fld.Pkg().Path() == pkgPaths["raftpb"] {
			switch v.Fld.Name() {
			case "Voters", "Learners", "VotersOutgoing":
				have[v.Fld.Name()] = true
			}
		}
	}
	if !(have["Voters"] && have["Learners"] && have["VotersOutgoing"]) {
		return false, fmt.Sprintf("sets searched: %v", have)
	}
	return true, fmt.Sprintf("flag %s, %d true-edges all under id == r.id, sets Voters/Learners/VotersOutgoing", flag.Name(), nTrue)
}

func c09Leader(c *Check) {
	p := c.P
	msgT := p.Type("raftpb", "Message")
	msgSnap := p.ConstVal("raftpb", "MsgSnap")
	lsnapshot := p.Method("raft", "raftLog", "snapshot")
	isEmptySnap := p.Func("raft", "IsEmptySnap")
	becomeSnap := p.Method("tracker", "Progress", "BecomeSnapshot")
	recentActive := p.Field("tracker", "Progress", "RecentActive")
	send := p.Method("raft", "raft", "send")
	n := 0
	for _, lit := range p.Lits(msgT) {
		tc, ok := lit.TypeConsts(p)
		if !ok || len(tc) != 1 || tc[0] != msgSnap {
			continue
		}
		n++
		fi := p.Info(lit.Fn)
		site := p.site(lit.Alloc)
		sn := lit.FieldSym(p, "Snapshot")
		okS := sn != nil && sn.K == KExtract && sn.Idx == 0 && sn.Args[0].K == KCall && sn.Args[0].Fn == lsnapshot
		c.Result(okS, "C09.L", "MsgSnap.Snapshot", fnName(lit.Fn), site, "Snapshot <- r.raftLog.snapshot()", fmt.Sprintf("%v", sn))
		if !okS {
			continue
		}
		f := fi.FactsAt(lit.Alloc)
		tested := &Facts{FI: fi, Atoms: f.Tested}
		okE := tested.HasBool(func(s *Sym) bool { return s.K == KCall && s.Fn == isEmptySnap && s.Args[0].Key() == sn.Key() }, false) != nil
		c.Result(okE, "C09.L", "MsgSnap carries a non-empty snapshot", fnName(lit.Fn), site, "!IsEmptySnap(snapshot)", strings.Join(f.Describe(), "; "))
		// BecomeSnapshot(snapshot.index) dominates the send
		var sendCall ssa.Instruction
		for _, u := range lit.Uses(p) {
			if u.Kind == "arg" && len(u.Callee) == 1 && u.Callee[0] == send {
				sendCall = u.Instr
			}
		}
		okB := false
		for _, ci := range p.CallsIn(lit.Fn, becomeSnap) {
			a := fi.Sym(callArgs(ci)[1])
			if sendCall != nil && fi.InstrDominates(ci, sendCall) && a.Key() == snapIndexSym(p, sn).Key() {
				okB = true
				// pr.RecentActive tested true
				pr := fi.Sym(callArgs(ci)[0])
				ff := fi.FactsAt(ci)
				tt := &Facts{FI: fi, Atoms: ff.Tested}
				okR := tt.HasBool(isKey(FieldOf(pr, recentActive).Key()), true) != nil
				c.Info(okR, "C09.L.defensive", "snapshot only to a recently active follower", fnName(lit.Fn), p.site(ci), "pr.RecentActive (an optimisation, not a safety condition)", strings.Join(ff.Describe(), "; "))
			}
		}
		c.Result(okB, "C09.L", "BecomeSnapshot before sending", fnName(lit.Fn), site, "pr.BecomeSnapshot(snapshot.index) dominates send(MsgSnap)", "")
	}
	c.Result(n >= 1, "C09.L", "MsgSnap literal", "-", "-", "the leader constructs MsgSnap somewhere", fmt.Sprint(n))
}
