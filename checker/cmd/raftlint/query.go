package main

import (
	"fmt"
	"go/constant"
	"go/token"
	"go/types"
	"sort"
	"strings"

	"golang.org/x/tools/go/ssa"
)

// ---- stores -------------------------------------------------------------------

// FieldStore is one store that writes a given field.
type FieldStore struct {
	Fn    *ssa.Function
	Instr ssa.Instruction // *ssa.Store
	Addr  ssa.Value
	Val   ssa.Value // the stored value (the whole struct value for whole-struct stores)
	Whole bool      // the store writes the enclosing struct as a whole
	Fresh bool      // the written object is a fresh allocation of this function (constructor)
}

// StoresTo returns every store in rule scope that may write field f.
func (p *Prog) StoresTo(f *types.Var) []FieldStore {
	var out []FieldStore
	if f == nil {
		return nil
	}
	for _, fn := range p.RuleFuncs {
		fi := p.Info(fn)
		for _, b := range fn.Blocks {
			if !fi.Reach[b.Index] {
				continue
			}
			for _, in := range fi.liveInstrs(b.Index) {
				st, ok := in.(*ssa.Store)
				if !ok {
					continue
				}
				if fa, ok := st.Addr.(*ssa.FieldAddr); ok {
					if s := derefStruct(fa.X.Type()); s != nil && s.Field(fa.Field) == f {
						_, fresh := rootOfAddr(fa).(*ssa.Alloc)
						out = append(out, FieldStore{Fn: fn, Instr: st, Addr: st.Addr, Val: st.Val, Fresh: fresh})
						continue
					}
				}
				// whole-struct store to a struct containing f
				if pt, ok := st.Addr.Type().Underlying().(*types.Pointer); ok {
					if s, ok := pt.Elem().Underlying().(*types.Struct); ok {
						for i := 0; i < s.NumFields(); i++ {
							if s.Field(i) == f {
								_, fresh := rootOfAddr(st.Addr).(*ssa.Alloc)
								out = append(out, FieldStore{Fn: fn, Instr: st, Addr: st.Addr, Val: st.Val, Whole: true, Fresh: fresh})
							}
						}
					}
				}
			}
		}
	}
	return out
}

// ---- calls --------------------------------------------------------------------

type CallSite struct {
	Caller *ssa.Function
	Instr  ssa.CallInstruction
}

// CallsTo returns the call sites (in non-test repo code) that may invoke fn.
func (p *Prog) CallsTo(fn *ssa.Function) []CallSite {
	var out []CallSite
	seen := map[ssa.CallInstruction]bool{}
	for _, e := range p.CallSites(fn) {
		if seen[e.Site] {
			continue
		}
		seen[e.Site] = true
		out = append(out, CallSite{Caller: e.Caller.Func, Instr: e.Site})
	}
	sort.Slice(out, func(i, j int) bool {
		a, b := out[i], out[j]
		if a.Caller != b.Caller {
			return fnName(a.Caller) < fnName(b.Caller)
		}
		return a.Instr.Pos() < b.Instr.Pos()
	})
	return out
}

// CallsIn returns the call instructions inside fn (live ones) whose resolved
// callees include target.
func (p *Prog) CallsIn(fn, target *ssa.Function) []ssa.CallInstruction {
	var out []ssa.CallInstruction
	fi := p.Info(fn)
	for _, b := range fn.Blocks {
		if !fi.Reach[b.Index] {
			continue
		}
		for _, in := range fi.liveInstrs(b.Index) {
			ci, ok := in.(ssa.CallInstruction)
			if !ok {
				continue
			}
			for _, c := range p.Callees(ci) {
				if c == target {
					out = append(out, ci)
					break
				}
			}
		}
	}
	return out
}

// callArgs returns the argument values of a call including the receiver for
// static method calls (matching the callee's Params order).
func callArgs(ci ssa.CallInstruction) []ssa.Value {
	cc := ci.Common()
	if cc.IsInvoke() {
		return append([]ssa.Value{cc.Value}, cc.Args...)
	}
	return cc.Args
}

// Reaches reports whether from can (transitively) call to, within repo code,
// over the refined call relation (see siteCallees).
func (p *Prog) Reaches(from, to *ssa.Function) bool {
	p.Effects(from) // make sure paramCalls is built
	seen := map[*ssa.Function]bool{}
	var dfs func(f *ssa.Function) bool
	dfs = func(f *ssa.Function) bool {
		if f == to {
			return true
		}
		if seen[f] || f.Blocks == nil {
			return false
		}
		seen[f] = true
		for _, b := range f.Blocks {
			for _, in := range b.Instrs {
				call, ok := in.(ssa.CallInstruction)
				if !ok {
					continue
				}
				for _, sc := range p.siteCallees(call) {
					pk := fnPkg(sc.fn)
					if pk == nil || !isOurPath(pk.Path()) {
						continue
					}
					if dfs(sc.fn) {
						return true
					}
				}
			}
		}
		return false
	}
	return dfs(from)
}

// CallReaches: may this call instruction (transitively) invoke target?
func (p *Prog) CallReaches(ci ssa.CallInstruction, target *ssa.Function) bool {
	p.Effects(ci.Parent())
	for _, sc := range p.siteCallees(ci) {
		if sc.fn == target || p.Reaches(sc.fn, target) {
			return true
		}
	}
	return false
}

// ---- constants -----------------------------------------------------------------

// PossibleConsts returns the set of integer constants a value may take, or
// ok=false if some source is not a constant (bounded depth through phis and
// static callees' returns).
func (p *Prog) PossibleConsts(v ssa.Value, depth int) (vals []int64, ok bool) {
	set := map[int64]bool{}
	seen := map[ssa.Value]bool{}
	var rec func(v ssa.Value, d int) bool
	rec = func(v ssa.Value, d int) bool {
		if seen[v] {
			return true
		}
		seen[v] = true
		if d > depth {
			return false
		}
		switch x := v.(type) {
		case *ssa.Const:
			if c, ok := constInt64(x.Value); ok {
				set[c] = true
				return true
			}
			if x.Value == nil && isIntType(x.Type()) {
				set[0] = true
				return true
			}
			return false
		case *ssa.Phi:
			for _, e := range x.Edges {
				if !rec(e, d) {
					return false
				}
			}
			return true
		case *ssa.Convert:
			return rec(x.X, d)
		case *ssa.ChangeType:
			return rec(x.X, d)
		case *ssa.Call:
			callee := x.Common().StaticCallee()
			if callee == nil || callee.Blocks == nil {
				return false
			}
			fi := p.Info(callee)
			for _, b := range callee.Blocks {
				if !fi.Reach[b.Index] || fi.Cut[b.Index] >= 0 {
					continue
				}
				if r, ok := b.Instrs[len(b.Instrs)-1].(*ssa.Return); ok {
					if len(r.Results) != 1 {
						return false
					}
					if !rec(r.Results[0], d+1) {
						return false
					}
				}
			}
			return true
		case *ssa.UnOp:
			if x.Op == token.MUL {
				// load of a single-assignment cell
				if al, ok := x.X.(*ssa.Alloc); ok {
					if sv := p.Info(al.Parent()).singleStore(al); sv != nil {
						return rec(sv, d)
					}
				}
			}
			return false
		}
		return false
	}
	if !rec(v, 0) {
		return nil, false
	}
	for c := range set {
		vals = append(vals, c)
	}
	sort.Slice(vals, func(i, j int) bool { return vals[i] < vals[j] })
	return vals, true
}

// ---- message / entry literals ----------------------------------------------------

// Lit is a composite literal `&T{...}` of a protobuf message type, as an
// abstract object (DESIGN §2.5).
type Lit struct {
	Fn     *ssa.Function
	Alloc  *ssa.Alloc
	Type   *types.Named
	Fields map[string]ssa.Value // key -> stored value (the pointer / slice / message stored)
	Stores map[string][]*ssa.Store
}

// Lits returns all composite literals / new() of the protobuf struct pkg.name
// in rule scope.
func (p *Prog) Lits(named *types.Named) []*Lit {
	var out []*Lit
	if named == nil {
		return nil
	}
	st, _ := named.Underlying().(*types.Struct)
	for _, fn := range p.RuleFuncs {
		fi := p.Info(fn)
		for _, b := range fn.Blocks {
			if !fi.Reach[b.Index] {
				continue
			}
			for _, in := range fi.liveInstrs(b.Index) {
				al, ok := in.(*ssa.Alloc)
				if !ok {
					continue
				}
				pt, ok := al.Type().(*types.Pointer)
				if !ok || !types.Identical(pt.Elem(), named) {
					continue
				}
				l := &Lit{Fn: fn, Alloc: al, Type: named, Fields: map[string]ssa.Value{}, Stores: map[string][]*ssa.Store{}}
				for _, ref := range *al.Referrers() {
					fa, ok := ref.(*ssa.FieldAddr)
					if !ok {
						continue
					}
					name := st.Field(fa.Field).Name()
					for _, r2 := range *fa.Referrers() {
						if s, ok := r2.(*ssa.Store); ok && s.Addr == fa {
							l.Stores[name] = append(l.Stores[name], s)
							if _, dup := l.Fields[name]; !dup {
								l.Fields[name] = s.Val
							}
						}
					}
				}
				out = append(out, l)
			}
		}
	}
	return out
}

// FieldSym returns the symbolic value of an optional scalar field of the
// literal (looking through the `new(x)` cell), or nil if the key is absent.
func (l *Lit) FieldSym(p *Prog, key string) *Sym {
	v, ok := l.Fields[key]
	if !ok {
		return nil
	}
	fi := p.Info(l.Fn)
	if _, isPtr := v.Type().Underlying().(*types.Pointer); isPtr {
		// message-typed pointers (Snapshot) are values themselves
		if pt := v.Type().Underlying().(*types.Pointer); isStructPtr(pt) {
			return fi.Sym(v)
		}
		return fi.PointeeOf(v)
	}
	return fi.Sym(v)
}

func isStructPtr(pt *types.Pointer) bool {
	_, ok := pt.Elem().Underlying().(*types.Struct)
	return ok
}

// TypeConsts returns the possible enum constants of the literal's Type key.
func (l *Lit) TypeConsts(p *Prog) ([]int64, bool) {
	v, ok := l.Fields["Type"]
	if !ok {
		return nil, false
	}
	return p.enumPtrConsts(v)
}

// enumPtrConsts resolves `X.Enum()` / new(const) pointers to constants.
func (p *Prog) enumPtrConsts(v ssa.Value) ([]int64, bool) {
	switch x := v.(type) {
	case *ssa.Call:
		if callee := x.Common().StaticCallee(); callee != nil && callee.Name() == "Enum" && len(x.Common().Args) == 1 {
			return p.PossibleConsts(x.Common().Args[0], 3)
		}
	case *ssa.Alloc:
		if sv := p.Info(x.Parent()).singleStore(x); sv != nil {
			return p.PossibleConsts(sv, 3)
		}
	}
	return nil, false
}

// Uses classifies where the literal object flows: each use other than its own
// field initialisation.
type LitUse struct {
	Kind   string // "arg", "store", "return", "append", "other"
	Instr  ssa.Instruction
	Callee []*ssa.Function
	ArgIdx int
}

func (l *Lit) Uses(p *Prog) []LitUse {
	var out []LitUse
	seen := map[ssa.Value]bool{}
	var visit func(v ssa.Value)
	visit = func(v ssa.Value) {
		if seen[v] {
			return
		}
		seen[v] = true
		for _, ref := range *v.Referrers() {
			switch r := ref.(type) {
			case *ssa.FieldAddr:
				// field init or later field store on the same object: not a flow
			case ssa.CallInstruction:
				args := callArgs(r)
				if _, isB := r.Common().Value.(*ssa.Builtin); isB {
					out = append(out, LitUse{Kind: "append", Instr: r})
					continue
				}
				for i, a := range args {
					if a == v {
						out = append(out, LitUse{Kind: "arg", Instr: r, Callee: p.Callees(r), ArgIdx: i})
					}
				}
			case *ssa.Store:
				if r.Val == v {
					out = append(out, LitUse{Kind: "store", Instr: r})
				}
			case *ssa.Return:
				out = append(out, LitUse{Kind: "return", Instr: r})
			case *ssa.Phi:
				visit(r)
			case *ssa.MakeInterface:
				visit(r)
			case *ssa.ChangeType:
				visit(r)
			case *ssa.UnOp:
				// load through: *alloc (struct copy) – rare for messages
				out = append(out, LitUse{Kind: "other", Instr: r})
			case *ssa.BinOp:
				// comparison with nil
			case *ssa.DebugRef:
			default:
				out = append(out, LitUse{Kind: "other", Instr: ref})
			}
		}
	}
	visit(l.Alloc)
	return out
}

// ---- misc ----------------------------------------------------------------------

func constSym(v int64) *Sym { return &Sym{K: KConst, C: constant.MakeInt64(v)} }

// CallSym builds the symbol of a (pure) call fn(args...), for stating
// requirements about calls that the code itself makes.
func CallSym(fn *ssa.Function, args ...*Sym) *Sym {
	s := &Sym{K: KCall, Fn: fn, Name: fnName(fn), Args: args, Idx: 0}
	if fn != nil && fn.Signature.Results().Len() == 1 {
		s.Typ = fn.Signature.Results().At(0).Type()
	}
	return s
}

func FieldOf(base *Sym, f *types.Var) *Sym {
	return simplifyField(&Sym{K: KField, Fld: f, Args: []*Sym{base}, Typ: f.Type()})
}

func (p *Prog) site(in ssa.Instruction) string { return p.InstrPos(in) }

func enumName(p *Prog, typ *types.Named, v int64) string {
	if typ == nil {
		return fmt.Sprint(v)
	}
	sc := typ.Obj().Pkg().Scope()
	for _, n := range sc.Names() {
		if c, ok := sc.Lookup(n).(*types.Const); ok && types.Identical(c.Type(), typ) {
			if cv, ok := constInt64(c.Val()); ok && cv == v {
				return n
			}
		}
	}
	return fmt.Sprint(v)
}

func enumNames(p *Prog, typ *types.Named, vs []int64) string {
	var s []string
	for _, v := range vs {
		s = append(s, enumName(p, typ, v))
	}
	return "{" + strings.Join(s, ",") + "}"
}

// blockOf returns the live instructions of fn in order.
func (p *Prog) liveInstrsOf(fn *ssa.Function) []ssa.Instruction {
	fi := p.Info(fn)
	var out []ssa.Instruction
	for _, b := range fn.Blocks {
		if fi.Reach[b.Index] {
			out = append(out, fi.liveInstrs(b.Index)...)
		}
	}
	return out
}

// FieldVal returns the symbolic value that the store gives to field f.
func (st FieldStore) FieldVal(fi *FuncInfo, f *types.Var) *Sym {
	v := fi.Sym(st.Val)
	if st.Whole {
		return resimplify(FieldOf(v, f))
	}
	return v
}

func constantUint64(c *types.Const) (uint64, bool) {
	return constant.Uint64Val(c.Val())
}

// RetVal resolves the i-th result of a return, looking through the result
// cells go/ssa introduces when the function has deferred calls (`return x, y`
// becomes stores to cells followed by a return of their loads).
func (fi *FuncInfo) RetVal(ret *ssa.Return, i int) ssa.Value {
	r := ret.Results[i]
	ld, ok := r.(*ssa.UnOp)
	if !ok || ld.Op != token.MUL {
		return r
	}
	cell, ok := ld.X.(*ssa.Alloc)
	if !ok {
		return r
	}
	// nearest store to the cell on the way to the return: same block first, then up the dominator chain
	b := ret.Block()
	start := instrIndex(ret)
	for {
		for j := start - 1; j >= 0; j-- {
			if st, ok := b.Instrs[j].(*ssa.Store); ok && st.Addr == cell {
				return st.Val
			}
		}
		if len(b.Preds) != 1 {
			return r
		}
		b = b.Preds[0]
		start = len(b.Instrs)
	}
}

func (fi *FuncInfo) RetSym(ret *ssa.Return, i int) *Sym {
	return fi.Sym(fi.RetVal(ret, i))
}

// ArmStore is a field store that happens on a guarded part (arm) of a
// function, directly or inside a helper called from that arm (depth <= 2),
// with the helper's parameters replaced by the call's arguments.
type ArmStore struct {
	Field *types.Var
	Val   *Sym
	Base  *Sym
	At    ssa.Instruction // the store, or the call through which it happens
}

// ArmStores collects the stores performed on instructions of fn selected by
// inArm (REACH-EFFECT of DESIGN §2.6, robust to extracting a helper).
func (p *Prog) ArmStores(fn *ssa.Function, inArm func(ssa.Instruction) bool) []ArmStore {
	var out []ArmStore
	fi := p.Info(fn)
	var fromCallee func(callee *ssa.Function, m map[ssa.Value]*Sym, at ssa.Instruction, depth int)
	fromCallee = func(callee *ssa.Function, m map[ssa.Value]*Sym, at ssa.Instruction, depth int) {
		if callee.Blocks == nil || depth > 2 {
			return
		}
		pk := fnPkg(callee)
		if pk == nil || !isOurPath(pk.Path()) {
			return
		}
		cfi := p.Info(callee)
		for _, in := range p.liveInstrsOf(callee) {
			switch x := in.(type) {
			case *ssa.Store:
				fa, ok := x.Addr.(*ssa.FieldAddr)
				if !ok {
					continue
				}
				if _, fresh := rootOfAddr(fa).(*ssa.Alloc); fresh {
					continue
				}
				if !mustPass(cfi, x) {
					continue // only unconditional effects of the helper count
				}
				out = append(out, ArmStore{Field: derefStruct(fa.X.Type()).Field(fa.Field), Val: resimplify(Subst(cfi.Sym(x.Val), m)), Base: resimplify(Subst(derefLoc(cfi.Sym(fa.X)), m)), At: at})
			case *ssa.Call:
				c2 := x.Common().StaticCallee()
				if c2 == nil || !mustPass(cfi, x) {
					continue
				}
				args := callArgs(x)
				if len(args) != len(c2.Params) {
					continue
				}
				m2 := map[ssa.Value]*Sym{}
				for i, prm := range c2.Params {
					m2[prm] = resimplify(Subst(cfi.Sym(args[i]), m))
				}
				fromCallee(c2, m2, at, depth+1)
			}
		}
	}
	for _, in := range p.liveInstrsOf(fn) {
		if !inArm(in) {
			continue
		}
		switch x := in.(type) {
		case *ssa.Store:
			fa, ok := x.Addr.(*ssa.FieldAddr)
			if !ok {
				continue
			}
			if _, fresh := rootOfAddr(fa).(*ssa.Alloc); fresh {
				continue
			}
			out = append(out, ArmStore{Field: derefStruct(fa.X.Type()).Field(fa.Field), Val: fi.Sym(x.Val), Base: derefLoc(fi.Sym(fa.X)), At: in})
		case *ssa.Call:
			callee := x.Common().StaticCallee()
			if callee == nil {
				continue
			}
			args := callArgs(x)
			if len(args) != len(callee.Params) {
				continue
			}
			m := map[ssa.Value]*Sym{}
			for i, prm := range callee.Params {
				m[prm] = fi.Sym(args[i])
			}
			fromCallee(callee, m, in, 1)
		}
	}
	return out
}

// ReturnFormula: the boolean function computed by fn as one formula: OR over
// its returns of (path outcomes AND returned value). nil if too complex.
func (p *Prog) ReturnFormula(fn *ssa.Function) *BF {
	fi := p.Info(fn)
	var disj []*BF
	for _, ret := range returnsOf(fi) {
		paths, ok := fi.Paths(ret, -1)
		if !ok || len(paths) > 256 {
			return nil
		}
		val := fi.valueBF(fi.RetVal(ret, 0), 0)
		for _, pth := range paths {
			disj = append(disj, bfAnd(append(append([]*BF{}, pth...), val)...))
		}
	}
	return bfOr(disj...)
}
