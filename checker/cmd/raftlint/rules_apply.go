package main

import (
	"fmt"
	"strings"

	"golang.org/x/tools/go/ssa"
)

// lastElemIndexOf: is `s` the symbol  X[len(X)-1].GetIndex()  for the slice symbol x?
func isLastElemIndex(p *Prog, s, x *Sym) bool {
	getIndexE := p.Method("raftpb", "Entry", "GetIndex")
	if s.K != KCall || s.Fn != getIndexE || len(s.Args) != 1 {
		return false
	}
	e := s.Args[0]
	if e.K != KIndex || e.Args[0].Key() != x.Key() {
		return false
	}
	d := LinOf(e.Args[1])
	d.add(LinOf(&Sym{K: KBuiltin, Name: "len", Args: []*Sym{x}}), -1)
	return len(d.T) == 0 && d.K == -1
}

// G-APPLY — committed entries are handed out by one cursor inside the commit index.
func gApply(c *Check) {
	p := c.P
	const rule = "G-APPLY"
	nextCE := p.Method("raft", "raftLog", "nextCommittedEnts")
	hasNextCE := p.Method("raft", "raftLog", "hasNextCommittedEnts")
	maxApp := p.Method("raft", "raftLog", "maxAppliableIndex")
	lslice := p.Method("raft", "raftLog", "slice")
	hasSnap := p.Method("raft", "raftLog", "hasNextOrInProgressSnapshot")
	acceptApplying := p.Method("raft", "raftLog", "acceptApplying")
	lAppliedTo := p.Method("raft", "raftLog", "appliedTo")
	rAppliedTo := p.Method("raft", "raft", "appliedTo")
	applyUnstable := p.Method("raft", "RawNode", "applyUnstableEntries")
	acceptReady := p.Method("raft", "RawNode", "acceptReady")
	step := p.Method("raft", "raft", "Step")
	newRaft := p.Func("raft", "newRaft")
	rdCE := p.Field("raft", "Ready", "CommittedEntries")
	applyingF := p.Field("raft", "raftLog", "applying")
	appliedF := p.Field("raft", "raftLog", "applied")
	committedF := p.Field("raft", "raftLog", "committed")
	pausedF := p.Field("raft", "raftLog", "applyingEntsPaused")
	sizeF := p.Field("raft", "raftLog", "applyingEntsSize")
	maxSizeF := p.Field("raft", "raftLog", "maxApplyingEntsSize")
	unstableF := p.Field("raft", "raftLog", "unstable")
	offsetF := p.Field("raft", "unstable", "offset")
	snapF := p.Field("raft", "unstable", "snapshot")
	asyncF := p.Field("raft", "RawNode", "asyncStorageWrites")
	cfgApplied := p.Field("raft", "Config", "Applied")
	msgT := p.Type("raftpb", "Message")
	if nextCE == nil || maxApp == nil || lslice == nil || acceptApplying == nil || lAppliedTo == nil || applyUnstable == nil {
		return
	}
	// (a) origin of Ready.CommittedEntries
	for _, st := range p.StoresTo(rdCE) {
		if st.Whole {
			continue
		}
		fi := p.Info(st.Fn)
		v := fi.Sym(st.Val)
		ok := v.K == KCall && v.Fn == nextCE
		c.Result(ok, rule+".a", "store Ready.CommittedEntries", fnName(st.Fn), p.site(st.Instr), "CommittedEntries <- raftLog.nextCommittedEnts(...)", v.Key())
	}
	apply := p.ConstVal("raftpb", "MsgStorageApply")
	applyResp := p.ConstVal("raftpb", "MsgStorageApplyResp")
	for _, lit := range p.Lits(msgT) {
		tc, ok := lit.TypeConsts(p)
		if !ok || len(tc) != 1 || (tc[0] != apply && tc[0] != applyResp) {
			continue
		}
		fi := p.Info(lit.Fn)
		ents := lit.FieldSym(p, "Entries")
		okE := ents != nil && ents.K == KField && ents.Fld == rdCE
		detail := fmt.Sprintf("Entries <- %v", ents)
		if !okE && ents != nil && ents.K == KParam {
			// parameter: every caller passes rd.CommittedEntries
			okE = true
			idx := -1
			for i, prm := range lit.Fn.Params {
				if prm == ents.V {
					idx = i
				}
			}
			sites := p.CallsTo(lit.Fn)
			if len(sites) == 0 {
				okE = false
			}
			for _, cs := range sites {
				a := p.Info(cs.Caller).Sym(callArgs(cs.Instr)[idx])
				if !(a.K == KField && a.Fld == rdCE) {
					okE = false
					detail = fmt.Sprintf("caller %s passes %s", fnName(cs.Caller), a)
				}
			}
		}
		_ = fi
		c.Result(okE, rule+".a", "apply message Entries", fnName(lit.Fn), p.site(lit.Alloc), "Entries <- rd.CommittedEntries", detail)
	}
	// (b) nextCommittedEnts: the only non-empty result is slice(applying+1, maxAppliable+1, budget)
	fi := p.Info(nextCE)
	l := fi.Sym(nextCE.Params[0])
	allow := fi.Sym(nextCE.Params[1])
	for _, ret := range returnsOf(fi) {
		v := fi.RetSym(ret, 0)
		site := p.site(ret)
		if v.K == KNil {
			continue
		}
		ok := v.K == KExtract && v.Idx == 0 && v.Args[0].K == KCall && v.Args[0].Fn == lslice
		if !ok {
			c.Bad(rule+".b", "nextCommittedEnts result", fnName(nextCE), site, "result <- l.slice(applying+1, maxAppliableIndex(allowUnstable)+1, budget)", v.Key())
			continue
		}
		call := v.Args[0]
		lo, hi, budget := call.Args[1], call.Args[2], call.Args[3]
		dlo := LinOf(lo)
		dlo.add(LinOf(FieldOf(l, applyingF)), -1)
		c.Result(len(dlo.T) == 0 && dlo.K == 1, rule+".b", "apply window lower bound", fnName(nextCE), site, "lo = applying+1", lo.Key())
		dhi := LinOf(hi)
		dhi.add(LinOf(CallSym(maxApp, l, allow)), -1)
		c.Result(len(dhi.T) == 0 && dhi.K == 1, rule+".b", "apply window upper bound", fnName(nextCE), site, "hi = maxAppliableIndex(allowUnstable)+1", hi.Key())
		pr := p.Prove(fi, ret, []Req{ReqBool(FieldOf(l, pausedF), false)})
		c.Result(pr.OK, rule+".b", "apply not paused", fnName(nextCE), site, "!applyingEntsPaused", describeProof(pr), pr.Chain...)
		pr = p.Prove(fi, ret, []Req{ReqBool(CallSym(hasSnap, l), false)})
		c.Result(pr.OK, "C08.S", "no apply while a snapshot is pending (nextCommittedEnts)", fnName(nextCE), site, "!hasNextOrInProgressSnapshot()", describeProof(pr), pr.Chain...)
		pr = p.Prove(fi, ret, []Req{ReqCmp(lo, "<", hi)})
		c.Result(pr.OK, rule+".b", "apply window non-empty", fnName(nextCE), site, "lo < hi", describeProof(pr), pr.Chain...)
		// budget = maxApplyingEntsSize - applyingEntsSize, > 0
		db := LinOf(budget)
		db.add(LinOf(FieldOf(l, maxSizeF)), -1)
		db.add(LinOf(FieldOf(l, sizeF)), 1)
		pr = p.Prove(fi, ret, []Req{ReqCmp(budget, ">", constSym(0))})
		c.Result(len(db.T) == 0 && db.K == 0 && pr.OK, "C08.P", "apply size budget", fnName(nextCE), site, "budget = maxApplyingEntsSize - applyingEntsSize > 0", budget.Key(), pr.Chain...)
	}
	// hasNextCommittedEnts mirrors the exclusions
	if hasNextCE != nil {
		hfi := p.Info(hasNextCE)
		hl := hfi.Sym(hasNextCE.Params[0])
		for _, ret := range returnsOf(hfi) {
			v := hfi.RetSym(ret, 0)
			if v.K == KConst && v.C != nil && v.C.String() == "false" {
				continue
			}
			pr := p.Prove(hfi, ret, []Req{ReqBool(CallSym(hasSnap, hl), false)})
			c.Result(pr.OK, "C08.S", "no apply while a snapshot is pending (hasNextCommittedEnts)", fnName(hasNextCE), p.site(ret), "!hasNextOrInProgressSnapshot()", describeProof(pr), pr.Chain...)
		}
	}
	// hasNextOrInProgressSnapshot reads unstable.snapshot != nil
	if hasSnap != nil {
		sfi := p.Info(hasSnap)
		for _, ret := range returnsOf(sfi) {
			v := sfi.RetSym(ret, 0)
			ok := v.K == KBin && v.Name == "!=" && v.Args[0].K == KField && v.Args[0].Fld == snapF && v.Args[1].K == KNil
			c.Result(ok, "C08.S", "hasNextOrInProgressSnapshot", fnName(hasSnap), p.site(ret), "returns unstable.snapshot != nil", v.Key())
		}
	}
	// (c) maxAppliableIndex <= committed, and <= offset-1 unless allowUnstable
	mfi := p.Info(maxApp)
	ml := mfi.Sym(maxApp.Params[0])
	mallow := mfi.Sym(maxApp.Params[1])
	for _, ret := range returnsOf(mfi) {
		edges := phiEdges(mfi, ret.Results[0], ret)
		for _, e := range edges {
			v := mfi.Sym(e.val)
			site := p.site(ret)
			okC := e.facts.ImpliesCmp(v, "<=", FieldOf(ml, committedF))
			c.Result(okC, rule+".c", "maxAppliableIndex within commit", fnName(maxApp), site, "result <= l.committed", fmt.Sprintf("value %s under {%s}", v, strings.Join(e.facts.Describe(), "; ")))
			offm1 := &Sym{K: KBin, Name: "-", Args: []*Sym{FieldOf(FieldOf(ml, unstableF), offsetF), constSym(1)}}
			okU := e.facts.HasBool(isKey(mallow.Key()), true) != nil || e.facts.ImpliesCmp(v, "<=", offm1)
			c.Result(okU, "C08.A", "maxAppliableIndex excludes unstable entries unless allowed", fnName(maxApp), site, "allowUnstable || result <= unstable.offset-1", fmt.Sprintf("value %s under {%s}", v, strings.Join(e.facts.Describe(), "; ")))
		}
	}
	// (d) allowUnstable is always applyUnstableEntries() = !asyncStorageWrites
	afi := p.Info(applyUnstable)
	for _, ret := range returnsOf(afi) {
		v := afi.RetSym(ret, 0)
		ok := v.K == KNot && v.Args[0].K == KField && v.Args[0].Fld == asyncF
		c.Result(ok, "C08.A", "applyUnstableEntries", fnName(applyUnstable), p.site(ret), "returns !asyncStorageWrites", v.Key())
	}
	for _, fn := range []*ssa.Function{nextCE, hasNextCE, acceptApplying} {
		if fn == nil {
			continue
		}
		idx := len(fn.Params) - 1
		for _, cs := range p.CallsTo(fn) {
			a := p.Info(cs.Caller).Sym(callArgs(cs.Instr)[idx])
			ok := a.K == KCall && a.Fn == applyUnstable
			if !ok && a.K == KParam && (cs.Caller == nextCE || cs.Caller == hasNextCE || cs.Caller == acceptApplying) && a.V == ssa.Value(cs.Caller.Params[len(cs.Caller.Params)-1]) {
				// passing on its own allowUnstable, which is checked at that function's callers
				ok = true
			}
			c.Result(ok, "C08.A", "allowUnstable argument of "+fn.Name(), fnName(cs.Caller), p.site(cs.Instr), "allowUnstable <- rn.applyUnstableEntries() (never a constant)", a.Key())
		}
	}
	// (e) cursor ownership and bounds
	rl := p.Type("raft", "raftLog")
	ownership(c, rule+".own", rl, p.fields("raft", "raftLog", "applying", "applied", "applyingEntsSize", "applyingEntsPaused"), nil)
	for _, st := range p.StoresTo(applyingF) {
		if st.Fresh || st.Whole {
			continue
		}
		sfi := p.Info(st.Fn)
		v := sfi.Sym(st.Val)
		base := storeBase(sfi, st)
		pr := p.Prove(sfi, st.Instr, []Req{ReqCmp(v, "<=", FieldOf(base, committedF))})
		if !pr.OK && v.K == KBuiltin && v.Name == "max" {
			// max(applying, i): i <= committed suffices given applying <= committed inductively
			okAll := true
			var chain []string
			for _, a := range v.Args {
				if a.Key() == FieldOf(base, applyingF).Key() {
					continue
				}
				pr2 := p.Prove(sfi, st.Instr, []Req{ReqCmp(a, "<=", FieldOf(base, committedF))})
				chain = append(chain, pr2.Chain...)
				okAll = okAll && pr2.OK
			}
			c.Result(okAll, rule+".e", "store raftLog.applying", fnName(st.Fn), p.site(st.Instr), "new applying <= committed (max with the old value)", v.Key(), chain...)
			continue
		}
		c.Result(pr.OK, rule+".e", "store raftLog.applying", fnName(st.Fn), p.site(st.Instr), "new applying <= committed", describeProof(pr), pr.Chain...)
	}
	for _, st := range p.StoresTo(appliedF) {
		if st.Fresh || st.Whole {
			continue
		}
		sfi := p.Info(st.Fn)
		v := sfi.Sym(st.Val)
		base := storeBase(sfi, st)
		pr := p.Prove(sfi, st.Instr, []Req{ReqCmp(v, "<=", FieldOf(base, committedF)), ReqCmp(v, ">=", FieldOf(base, appliedF))})
		c.Result(pr.OK, rule+".e", "store raftLog.applied", fnName(st.Fn), p.site(st.Instr), "old applied <= new applied <= committed", describeProof(pr), pr.Chain...)
	}
	// (f) the cursor advances to the last handed-out entry
	if acceptReady != nil {
		rfi := p.Info(acceptReady)
		n := 0
		for _, ci := range p.CallsIn(acceptReady, acceptApplying) {
			n++
			a := rfi.Sym(callArgs(ci)[1])
			rd := rfi.Sym(acceptReady.Params[1])
			ce := FieldOf(rd, rdCE)
			ok := isLastElemIndex(p, a, ce)
			c.Result(ok, rule+".f", "acceptApplying index", fnName(acceptReady), p.site(ci), "index <- last entry of rd.CommittedEntries", a.Key())
			pr := p.Prove(rfi, ci, []Req{ReqCmp(&Sym{K: KBuiltin, Name: "len", Args: []*Sym{ce}}, ">", constSym(0))})
			c.Result(pr.OK, rule+".f", "acceptApplying only with entries", fnName(acceptReady), p.site(ci), "len(rd.CommittedEntries) > 0", describeProof(pr), pr.Chain...)
		}
		c.Result(n == 1, rule+".f", "acceptReady advances the apply cursor", fnName(acceptReady), p.Pos(acceptReady.Pos()), "one acceptApplying call", fmt.Sprint(n))
	}
	if step != nil && rAppliedTo != nil {
		sfi := p.Info(step)
		getEntries := p.Method("raftpb", "Message", "GetEntries")
		getType := p.Method("raftpb", "Message", "GetType")
		m := sfi.Sym(step.Params[1])
		for _, ci := range p.CallsIn(step, rAppliedTo) {
			a := sfi.Sym(callArgs(ci)[1])
			ok := isLastElemIndex(p, a, CallSym(getEntries, m))
			c.Result(ok, rule+".f", "appliedTo index in Step", fnName(step), p.site(ci), "index <- last entry of m.Entries", a.Key())
			pr := p.Prove(sfi, ci, []Req{ReqCmp(CallSym(getType, m), "==", constSym(applyResp))})
			c.Result(pr.OK, rule+".f", "appliedTo under MsgStorageApplyResp", fnName(step), p.site(ci), "m.GetType() == MsgStorageApplyResp", describeProof(pr), pr.Chain...)
		}
	}
	// (g) restart honours Config.Applied
	if newRaft != nil {
		nfi := p.Info(newRaft)
		for _, ci := range p.CallsIn(newRaft, lAppliedTo) {
			a := nfi.Sym(callArgs(ci)[1])
			ok := a.K == KField && a.Fld == cfgApplied
			pr := p.Prove(nfi, ci, []Req{ReqCmp(a, ">", constSym(0))})
			c.Result(ok && pr.OK, rule+".g", "newRaft applies Config.Applied", fnName(newRaft), p.site(ci), "appliedTo(c.Applied, 0) under c.Applied > 0", a.Key(), pr.Chain...)
		}
	}
	// C08.P: pagination flag
	for _, st := range p.StoresTo(pausedF) {
		if st.Fresh || st.Whole {
			continue
		}
		sfi := p.Info(st.Fn)
		base := storeBase(sfi, st)
		code := sfi.valueBF(st.Val, 0)
		sizeGE := bfCmp(FieldOf(base, sizeF), ">=", FieldOf(base, maxSizeF))
		ok1, _ := bfImplies(sizeGE, code)
		c.Result(ok1, "C08.P", "store applyingEntsPaused", fnName(st.Fn), p.site(st.Instr), "paused whenever applyingEntsSize >= maxApplyingEntsSize", "value "+code.String())
	}
	cSnapClear(c)
}

// cSnapClear — the pending snapshot is cleared only by the matching storage acknowledgement.
func cSnapClear(c *Check) {
	p := c.P
	snapF := p.Field("raft", "unstable", "snapshot")
	// C08.S: the pending snapshot is cleared only by stableSnapTo on the matching index, reached from appliedSnap
	stableSnapTo := p.Method("raft", "unstable", "stableSnapTo")
	appliedSnap := p.Method("raft", "raft", "appliedSnap")
	for _, st := range p.StoresTo(snapF) {
		if st.Fresh || st.Whole {
			continue
		}
		sfi := p.Info(st.Fn)
		v := sfi.Sym(st.Val)
		if v.K != KNil {
			continue
		}
		okFn := st.Fn == stableSnapTo
		okGuard := false
		if okFn {
			u := sfi.Sym(st.Fn.Params[0])
			i := sfi.Sym(st.Fn.Params[1])
			pr := p.Prove(sfi, st.Instr, []Req{ReqCmp(snapIndexSym(p, FieldOf(u, snapF)), "==", i)})
			okGuard = pr.OK
		}
		c.Result(okFn && okGuard, "C08.S", "clear unstable.snapshot", fnName(st.Fn), p.site(st.Instr), "only stableSnapTo, under snapshot.index == i", "")
	}
	if stableSnapTo != nil && appliedSnap != nil {
		lsst := p.Method("raft", "raftLog", "stableSnapTo")
		for _, cs := range p.CallsTo(stableSnapTo) {
			c.Result(cs.Caller == lsst, "C08.S", "caller of unstable.stableSnapTo", fnName(cs.Caller), p.site(cs.Instr), "only raftLog.stableSnapTo", "")
		}
		if lsst != nil {
			for _, cs := range p.CallsTo(lsst) {
				c.Result(cs.Caller == appliedSnap, "C08.S", "caller of raftLog.stableSnapTo", fnName(cs.Caller), p.site(cs.Instr), "only raft.appliedSnap (a storage acknowledgement)", "")
			}
		}
		// the apply cursor moves to the acknowledged snapshot's own index: not to the commit index,
		// which may already be ahead (entries that arrived while the install was outstanding must
		// still be delivered after the snapshot)
		if rAppliedTo := p.Method("raft", "raft", "appliedTo"); rAppliedTo != nil {
			afi := p.Info(appliedSnap)
			snap := afi.Sym(appliedSnap.Params[1])
			n := 0
			for _, ci := range p.CallsIn(appliedSnap, rAppliedTo) {
				n++
				a := afi.Sym(callArgs(ci)[1])
				ok := strings.Contains(a.Key(), snap.Key()) && strings.HasSuffix(a.Key(), ".GetMetadata().GetIndex()")
				c.Result(ok, "C08.S", "appliedSnap advances the cursor to the snapshot index", fnName(appliedSnap), p.site(ci), "appliedTo(snap.Metadata.Index, 0)", sanitizeKey(a.Key()))
			}
			c.Result(n >= 1, "C08.S", "appliedSnap advances the cursor", fnName(appliedSnap), p.Pos(appliedSnap.Pos()), "appliedSnap calls appliedTo", fmt.Sprint(n))
		}
	}
}

type phiEdge struct {
	val   ssa.Value
	facts *Facts
}

// phiEdges expands a (possibly phi) returned value into its incoming values
// with the facts that hold on the respective incoming edge.
func phiEdges(fi *FuncInfo, v ssa.Value, at ssa.Instruction) []phiEdge {
	ph, ok := v.(*ssa.Phi)
	if !ok {
		return []phiEdge{{v, fi.FactsAt(at)}}
	}
	var out []phiEdge
	for i, e := range ph.Edges {
		pred := ph.Block().Preds[i]
		if !fi.Reach[pred.Index] {
			continue
		}
		f := &Facts{FI: fi}
		// facts of the predecessor block plus the branch outcome on the edge itself
		for _, ef := range fi.EdgeFacts(pred.Index) {
			f.Atoms = append(f.Atoms, atomsOf(fi.Sym(ef.Cond), ef.Pos)...)
		}
		if iff, ok := pred.Instrs[len(pred.Instrs)-1].(*ssa.If); ok && fi.Cut[pred.Index] < 0 && pred.Succs[0] != pred.Succs[1] {
			pos := pred.Succs[0] == ph.Block()
			f.Atoms = append(f.Atoms, atomsOf(fi.Sym(iff.Cond), pos)...)
		}
		out = append(out, phiEdge{e, f})
	}
	return out
}
