package main

import (
	"fmt"
	"go/token"
	"go/types"
	"strings"

	"golang.org/x/tools/go/ssa"
)

// C16 — flow-control and size limits.
func c16FlowControl(c *Check) {
	p := c.P
	msgT := p.Type("raftpb", "Message")
	msgApp := p.ConstVal("raftpb", "MsgApp")
	lentries := p.Method("raft", "raftLog", "entries")
	lslice := p.Method("raft", "raftLog", "slice")
	limitSize := p.Func("raft", "limitSize")
	extend := p.Func("raft", "extend")
	entsSize := p.Func("raft", "entsSize")
	maxMsgSizeF := p.Field("raft", "raft", "maxMsgSize")
	cfgMaxSize := p.Field("raft", "Config", "MaxSizePerMsg")
	maybeSendAppend := p.Method("raft", "raft", "maybeSendAppend")
	sentEntries := p.Method("tracker", "Progress", "SentEntries")
	isPaused := p.Method("tracker", "Progress", "IsPaused")
	inflAdd := p.Method("tracker", "Inflights", "Add")
	inflFull := p.Method("tracker", "Inflights", "Full")
	inflFree := p.Method("tracker", "Inflights", "FreeLE")
	stateF := p.Field("tracker", "Progress", "State")
	pausedF := p.Field("tracker", "Progress", "MsgAppFlowPaused")
	inflightsF := p.Field("tracker", "Progress", "Inflights")
	replicate := p.ConstVal("tracker", "StateReplicate")
	snapshotSt := p.ConstVal("tracker", "StateSnapshot")
	send := p.Method("raft", "raft", "send")
	payloadsSize := p.Func("raft", "payloadsSize")
	if lentries == nil || lslice == nil || limitSize == nil || maybeSendAppend == nil || sentEntries == nil {
		return
	}
	// --- C16.M: MsgApp.Entries <- raftLog.entries(pr.Next, r.maxMsgSize) or nil
	nApp := 0
	for _, lit := range p.Lits(msgT) {
		tc, ok := lit.TypeConsts(p)
		if !ok || len(tc) != 1 || tc[0] != msgApp {
			continue
		}
		nApp++
		fi := p.Info(lit.Fn)
		site := p.site(lit.Alloc)
		ev, has := lit.Fields["Entries"]
		if !has {
			c.Ok("C16.M", "MsgApp without entries", fnName(lit.Fn), site, "an empty append carries no entries", "")
			continue
		}
		r := fi.Sym(lit.Fn.Params[0])
		okAll := true
		detail := ""
		for _, e := range phiEdges(fi, ev, lit.Alloc) {
			s := fi.Sym(e.val)
			if s.K == KNil {
				continue
			}
			ok := s.K == KExtract && s.Idx == 0 && s.Args[0].K == KCall && s.Args[0].Fn == lentries && s.Args[0].Args[2].Key() == FieldOf(r, maxMsgSizeF).Key()
			if !ok {
				okAll = false
				detail += "source " + sanitizeKey(s.Key()) + "; "
			}
		}
		c.Result(okAll, "C16.M", "MsgApp.Entries source", fnName(lit.Fn), site, "Entries <- r.raftLog.entries(pr.Next, r.maxMsgSize) (or nil)", detail)
		// every MsgApp send is followed by SentEntries(len(ents), payloadsSize(ents)) on the same ents
		var sendCall ssa.Instruction
		for _, u := range lit.Uses(p) {
			if u.Kind == "arg" && len(u.Callee) == 1 && u.Callee[0] == send {
				sendCall = u.Instr
			}
		}
		okSent := false
		if sendCall != nil {
			for _, ci := range p.CallsIn(lit.Fn, sentEntries) {
				if !mustPassFrom(fi, sendCall, ci) {
					continue
				}
				a := callArgs(ci)
				n, b := fi.Sym(a[1]), fi.Sym(a[2])
				es := fi.Sym(ev)
				if n.K == KBuiltin && n.Name == "len" && n.Args[0].Key() == es.Key() && b.K == KCall && b.Fn == payloadsSize && b.Args[0].Key() == es.Key() {
					okSent = true
				}
			}
		}
		c.Result(okSent, "C16.I", "MsgApp send is accounted", fnName(lit.Fn), site, "send(MsgApp{Entries: ents}) is followed on every path by pr.SentEntries(len(ents), payloadsSize(ents))", "")
		// the whole send is unreachable for a paused peer (covers StateSnapshot)
		if sendCall != nil {
			f := fi.FactsAt(sendCall)
			tested := &Facts{FI: fi, Atoms: f.Tested}
			okP := tested.HasBool(isCallTo(isPaused), false) != nil
			c.Result(okP, "C16.S", "MsgApp only to an unpaused peer", fnName(lit.Fn), p.site(sendCall), "!pr.IsPaused() was tested on every path", strings.Join(f.Describe(), "; "))
		}
	}
	c.Result(nApp >= 1, "C16.M", "MsgApp literal", "-", "-", "MsgApp is constructed somewhere", fmt.Sprint(nApp))
	// maxMsgSize written only by the constructor, from Config.MaxSizePerMsg
	for _, st := range p.StoresTo(maxMsgSizeF) {
		fi := p.Info(st.Fn)
		v := fi.Sym(st.Val)
		ok := st.Fresh && v.K == KField && v.Fld == cfgMaxSize
		c.Result(ok, "C16.M", "store raft.maxMsgSize", fnName(st.Fn), p.site(st.Instr), "set once from Config.MaxSizePerMsg", v.Key())
	}
	// raftLog.entries passes its limit on unchanged
	{
		fi := p.Info(lentries)
		maxP := fi.Sym(lentries.Params[2])
		for _, ret := range returnsOf(fi) {
			v := fi.RetSym(ret, 0)
			if v.K == KNil {
				continue
			}
			ok := v.K == KExtract && v.Args[0].K == KCall && v.Args[0].Fn == lslice && v.Args[0].Args[3].Key() == maxP.Key()
			c.Result(ok, "C16.M", "raftLog.entries result", fnName(lentries), p.site(ret), "entries <- l.slice(i, lastIndex()+1, maxSize) with the caller's limit", sanitizeKey(v.Key()))
		}
	}
	// raftLog.slice: every non-empty result is size-limited by the caller's budget
	c16Slice(c, lslice, limitSize, extend, entsSize)
	// limitSize: first entry always included, cut at the first overflow
	c16LimitSize(c, limitSize)

	// --- C16.I: inflight window
	if inflAdd != nil {
		for _, cs := range p.CallsTo(inflAdd) {
			fi := p.Info(cs.Caller)
			okCaller := cs.Caller == sentEntries
			f := fi.FactsAt(cs.Instr)
			okG := false
			if okCaller {
				pr := fi.Sym(sentEntries.Params[0])
				okG = f.EnumFact(FieldOf(pr, stateF), replicate) == 1 && f.ImpliesCmp(fi.Sym(sentEntries.Params[1]), ">", constSym(0))
			}
			c.Result(okCaller && okG, "C16.I", "Inflights.Add caller", fnName(cs.Caller), p.site(cs.Instr), "only SentEntries, in StateReplicate, for entries > 0", strings.Join(f.Describe(), "; "))
		}
	}
	// in maybeSendAppend the fetch of entries happens only with window space
	{
		fi := p.Info(maybeSendAppend)
		for _, ci := range p.CallsIn(maybeSendAppend, lentries) {
			// paths to the fetch: State != Replicate || !Full()
			var prS *Sym
			f := fi.FactsAt(ci)
			for _, a := range f.Tested {
				if a.K == ABool && a.S.K == KCall && a.S.Fn == isPaused {
					prS = a.S.Args[0]
				}
			}
			if prS == nil {
				c.Bad("C16.I", "entries fetch in maybeSendAppend", fnName(maybeSendAppend), p.site(ci), "guarded by the inflight window", "no IsPaused test dominates")
				continue
			}
			spec := bfOr(bfNot(bfCmp(FieldOf(prS, stateF), "==", constSym(replicate))), bfNot(bfSym(CallSym(inflFull, FieldOf(prS, inflightsF)))))
			ok, und, detail := fi.pathsImplyOpt(ci, -1, spec, true)
			if und {
				c.Undecided("C16.I", "entries fetch in maybeSendAppend", fnName(maybeSendAppend), p.site(ci), "State != StateReplicate || !Inflights.Full()", detail)
			} else {
				c.Result(ok, "C16.I", "entries fetch in maybeSendAppend", fnName(maybeSendAppend), p.site(ci), "State != StateReplicate || !Inflights.Full()", detail)
			}
		}
	}
	// SentEntries pauses when the window is full, after Add
	{
		fi := p.Info(sentEntries)
		pr := fi.Sym(sentEntries.Params[0])
		okPause := false
		for _, st := range p.StoresTo(pausedF) {
			if st.Fn != sentEntries || st.Whole {
				continue
			}
			v := fi.Sym(st.Val)
			if v.K == KCall && v.Fn == inflFull {
				f := fi.FactsAt(st.Instr)
				if f.EnumFact(FieldOf(pr, stateF), replicate) == 1 {
					okPause = true
					for _, ci := range p.CallsIn(sentEntries, inflAdd) {
						if fi.ReachableFrom([]int{st.Instr.Block().Index}, nil)[ci.Block().Index] && st.Instr.Block() != ci.Block() {
							okPause = false // an Add after the pause decision
						}
					}
				}
			}
		}
		c.Result(okPause, "C16.I", "SentEntries pauses a full window", fnName(sentEntries), p.Pos(sentEntries.Pos()), "StateReplicate: MsgAppFlowPaused <- Inflights.Full(), evaluated after Add", "")
	}
	// Full(): count == size || (maxBytes != 0 && bytes >= maxBytes)
	if inflFull != nil {
		fi := p.Info(inflFull)
		in := fi.Sym(inflFull.Params[0])
		cnt, size := p.Field("tracker", "Inflights", "count"), p.Field("tracker", "Inflights", "size")
		bytesF, maxBytes := p.Field("tracker", "Inflights", "bytes"), p.Field("tracker", "Inflights", "maxBytes")
		spec := bfOr(bfCmp(FieldOf(in, cnt), "==", FieldOf(in, size)), bfAnd(bfCmp(FieldOf(in, maxBytes), "!=", constSym(0)), bfCmp(FieldOf(in, bytesF), ">=", FieldOf(in, maxBytes))))
		for _, ret := range returnsOf(fi) {
			code := fi.valueBF(fi.RetVal(ret, 0), 0)
			// safety direction: whenever the spec says full, the code says full
			ok, why := bfImplies(spec, code)
			c.Result(ok, "C16.I", "Inflights.Full", fnName(inflFull), p.site(ret), "count == size || (maxBytes != 0 && bytes >= maxBytes) implies Full()", code.String()+" "+why)
		}
		// counters: Add increments count and bytes, reset zeroes
		reset := p.Method("tracker", "Inflights", "reset")
		for _, f := range []*typesVarT{cnt, bytesF} {
			okAdd, okReset := false, false
			for _, st := range p.StoresTo(f) {
				if st.Whole || st.Fresh {
					continue
				}
				sfi := p.Info(st.Fn)
				v := sfi.Sym(st.Val)
				base := storeBase(sfi, st)
				d := LinOf(v)
				d.add(LinOf(FieldOf(base, f)), -1)
				switch st.Fn {
				case inflAdd:
					if f == cnt {
						okAdd = len(d.T) == 0 && d.K == 1
					} else {
						okAdd = len(d.T) == 1 && d.K == 0 // + bytes parameter
						for k := range d.T {
							okAdd = okAdd && d.T[k] == 1 && d.S[k].K == KParam
						}
					}
				case reset:
					z, ok := constInt64(v.C)
					okReset = v.K == KConst && ok && z == 0
				case inflFree:
					// decrements by what it counted: new = old - x
				default:
					c.Bad("C16.I", "store Inflights."+f.Name(), fnName(st.Fn), p.site(st.Instr), "only Add, FreeLE and reset maintain the window counters", "")
				}
			}
			c.Result(okAdd && okReset, "C16.I", "Inflights."+f.Name()+" accounting", "-", "-", "Add adds exactly one message / its bytes; reset zeroes", fmt.Sprintf("add=%v reset=%v", okAdd, okReset))
		}
	}
	// --- C16.S: snapshot state pauses
	if isPaused != nil {
		fi := p.Info(isPaused)
		pr := fi.Sym(isPaused.Params[0])
		okSnap := false
		for _, ret := range returnsOf(fi) {
			f := fi.FactsAt(ret)
			if f.EnumFact(FieldOf(pr, stateF), snapshotSt) == 1 {
				v := fi.RetSym(ret, 0)
				okSnap = v.K == KConst && v.C != nil && v.C.String() == "true"
			}
		}
		c.Result(okSnap, "C16.S", "IsPaused in StateSnapshot", fnName(isPaused), p.Pos(isPaused.Pos()), "constant true while a snapshot is pending", "")
	}
	// a peer leaves StateSnapshot only on a snapshot report or a catching-up acknowledgement
	c16SnapshotExit(c)
	// the configured limits reach every inflight window
	c16Limits(c)
	c16FreeLE(c)
	// --- C16.U: uncommitted size
	c16Uncommitted(c)
}

type typesVarT = types.Var

func c16Slice(c *Check, lslice, limitSize, extend, entsSize *ssa.Function) {
	p := c.P
	fi := p.Info(lslice)
	maxP := fi.Sym(lslice.Params[3])
	lo := fi.Sym(lslice.Params[1])
	isLimited := func(s *Sym, budget func(*Sym) bool) bool {
		// limitSize(x, b) possibly re-sliced
		for s.K == KSlice {
			s = s.Args[0]
		}
		return s.K == KCall && s.Fn == limitSize && budget(s.Args[1])
	}
	isStorage := func(s *Sym) bool {
		return s.K == KExtract && s.Idx == 0 && s.Args[0].K == KCall && s.Args[0].Meth != nil && s.Args[0].Meth.Name() == "Entries" && len(s.Args[0].Args) == 4 && s.Args[0].Args[3].Key() == maxP.Key()
	}
	full := func(b *Sym) bool { return b.Key() == maxP.Key() }
	for _, ret := range returnsOf(fi) {
		v := fi.RetSym(ret, 0)
		site := p.site(ret)
		if v.K == KNil {
			continue
		}
		switch {
		case isLimited(v, full):
			c.Ok("C16.M", "slice result: unstable part", fnName(lslice), site, "limitSize(unstable.slice(lo,hi), maxSize)", sanitizeKey(v.Key()))
		case isStorage(v):
			c.Ok("C16.M", "slice result: storage part", fnName(lslice), site, "storage.Entries(lo, cut, maxSize)", sanitizeKey(v.Key()))
		case v.K == KCall && v.Fn == extend:
			a, b := v.Args[0], v.Args[1]
			okA := isStorage(a)
			// budget of the unstable part: maxSize - entsSize(storage part), under size < maxSize
			okB := isLimited(b, func(bud *Sym) bool {
				d := LinOf(bud)
				d.add(LinOf(maxP), -1)
				d.add(LinOf(CallSym(entsSize, a)), 1)
				return len(d.T) == 0 && d.K == 0
			})
			pr := p.Prove(fi, ret, []Req{ReqCmp(CallSym(entsSize, a), "<", maxP)})
			c.Result(okA && okB && pr.OK, "C16.M", "slice result: storage + unstable", fnName(lslice), site, "extend(storage part, limitSize(unstable part, maxSize - size)) under size < maxSize", sanitizeKey(v.Key()), pr.Chain...)
			// contiguity: the storage part must be complete before anything is appended after it
			cut := a.Args[0].Args[2]
			need := &Sym{K: KBin, Name: "-", Args: []*Sym{cut, lo}}
			pr2 := p.Prove(fi, ret, []Req{ReqCmp(&Sym{K: KBuiltin, Name: "len", Args: []*Sym{a}}, ">=", need)})
			c.Result(pr2.OK, "C18.V", "no gap between storage and unstable parts", fnName(lslice), site, "len(storage part) >= cut-lo before the unstable part is appended", describeProof(pr2), pr2.Chain...)
			// a single oversized unstable entry is not appended after a non-empty storage part
			sum := &Sym{K: KBin, Name: "+", Args: []*Sym{CallSym(entsSize, a), CallSym(entsSize, b)}}
			over := bfAnd(bfCmp(&Sym{K: KBuiltin, Name: "len", Args: []*Sym{b}}, "==", constSym(1)), bfCmp(sum, ">", maxP))
			okO, und, detail := fi.pathsImplyOpt(ret, -1, bfNot(over), true)
			if und {
				c.Undecided("C16.M", "single-entry overflow arm", fnName(lslice), site, "!(len(unstable)==1 && size+entsSize(unstable) > maxSize)", detail)
			} else {
				c.Result(okO, "C16.M", "single-entry overflow arm", fnName(lslice), site, "the unstable part is not appended when it is one entry that overflows the limit", detail)
			}
		default:
			c.Bad("C16.M", "slice result", fnName(lslice), site, "every non-empty result is size-limited by the caller's budget", sanitizeKey(v.Key()))
		}
	}
}

func c16LimitSize(c *Check, limitSize *ssa.Function) {
	p := c.P
	fi := p.Info(limitSize)
	ents := fi.Sym(limitSize.Params[0])
	maxP := fi.Sym(limitSize.Params[1])
	for _, ret := range returnsOf(fi) {
		v := fi.RetSym(ret, 0)
		site := p.site(ret)
		if v.Key() == ents.Key() {
			continue // whole input
		}
		// ents[:limit] with limit >= 1, under size > maxSize
		ok := v.K == KSlice && v.Args[0].Key() == ents.Key() && v.Args[1].K == KNil
		okMin := false
		if ok {
			hi := v.Args[2]
			// limit is a loop phi starting at 1 and only incremented
			if hi.K == KPhi {
				ph := hi.V.(*ssa.Phi)
				okMin = true
				for _, e := range ph.Edges {
					es := fi.Sym(e)
					if z, isC := constInt64(es.C); es.K == KConst && isC {
						if z < 1 {
							okMin = false
						}
						continue
					}
					d := LinOf(es)
					d.add(LinOf(hi), -1)
					if !(len(d.T) == 0 && d.K >= 0) {
						okMin = false
					}
				}
			} else {
				f := fi.FactsAt(ret)
				okMin = f.ImpliesCmp(hi, ">=", constSym(1))
			}
		}
		f := fi.FactsAt(ret)
		okOver := false
		for _, a := range f.Atoms {
			if a.K == ALe {
				for k := range a.L.S {
					if k == maxP.Key() && a.L.T[k] == 1 {
						okOver = true // maxSize - size + 1 <= 0
					}
				}
			}
		}
		c.Result(ok && okMin && okOver, "C16.M", "limitSize cut", fnName(limitSize), site, "returns ents[:limit] with limit >= 1, at the first position where the running size exceeds maxSize", fmt.Sprintf("%s min1=%v overflow=%v", sanitizeKey(v.Key()), okMin, okOver))
	}
}

func c16Uncommitted(c *Check) {
	p := c.P
	appendEntry := p.Method("raft", "raft", "appendEntry")
	incr := p.Method("raft", "raft", "increaseUncommittedSize")
	reduce := p.Method("raft", "raft", "reduceUncommittedSize")
	lappend := p.Method("raft", "raftLog", "append")
	send := p.Method("raft", "raft", "send")
	uncomF := p.Field("raft", "raft", "uncommittedSize")
	maxUncomF := p.Field("raft", "raft", "maxUncommittedSize")
	payloadsSize := p.Func("raft", "payloadsSize")
	stepLeader := p.Func("raft", "stepLeader")
	reset := p.Method("raft", "raft", "reset")
	if appendEntry == nil || incr == nil || lappend == nil {
		return
	}
	fi := p.Info(appendEntry)
	for _, ci := range p.CallsIn(appendEntry, lappend) {
		f := fi.FactsAt(ci)
		tested := &Facts{FI: fi, Atoms: f.Tested}
		ok := tested.HasBool(func(s *Sym) bool {
			return s.K == KCall && s.Fn == incr && len(s.Args) == 2 && s.Args[1].Key() == fi.Sym(callArgs(ci)[1]).Key()
		}, true) != nil
		c.Result(ok, "C16.U", "append only after the size gate accepted these entries", fnName(appendEntry), p.site(ci), "increaseUncommittedSize(same entries) returned true", strings.Join(f.Describe(), "; "))
	}
	// the rejecting path returns false without appending or sending
	for _, ret := range returnsOf(fi) {
		v := fi.RetSym(ret, 0)
		if !(v.K == KConst && v.C != nil && v.C.String() == "false") {
			continue
		}
		bad := false
		for _, in := range fi.EntryTo(ret) {
			if ci, ok := in.(ssa.CallInstruction); ok {
				for _, callee := range p.Callees(ci) {
					if callee == lappend || callee == send {
						// only a problem if the call can precede this return on a path
						if fi.ReachableFrom([]int{ci.Block().Index}, nil)[ret.Block().Index] {
							bad = true
						}
					}
				}
			}
		}
		c.Result(!bad, "C16.U", "rejected proposal leaves no trace", fnName(appendEntry), p.site(ret), "the false return is not reachable from raftLog.append or send", "")
	}
	// increaseUncommittedSize: false exactly when uncommitted > 0 && s > 0 && uncommitted + s > max
	ifi := p.Info(incr)
	r := ifi.Sym(incr.Params[0])
	s := CallSym(payloadsSize, ifi.Sym(incr.Params[1]))
	un, mx := FieldOf(r, uncomF), FieldOf(r, maxUncomF)
	sum := &Sym{K: KBin, Name: "+", Args: []*Sym{un, s}}
	reject := bfAnd(bfCmp(un, ">", constSym(0)), bfCmp(s, ">", constSym(0)), bfCmp(sum, ">", mx))
	for _, ret := range returnsOf(ifi) {
		v := ifi.RetSym(ret, 0)
		isFalse := v.K == KConst && v.C != nil && v.C.String() == "false"
		isTrue := v.K == KConst && v.C != nil && v.C.String() == "true"
		spec := reject
		what := "returns false only when uncommittedSize > 0 && s > 0 && uncommittedSize+s > max"
		if isTrue {
			spec = bfNot(reject)
			what = "returns true only when the limit is not exceeded (or the log was empty / the proposal empty)"
		}
		if !isFalse && !isTrue {
			c.Undecided("C16.U", "increaseUncommittedSize return", fnName(incr), p.site(ret), "constant result per path", v.Key())
			continue
		}
		ok, und, detail := ifi.pathsImplyOpt(ret, -1, spec, true)
		if isFalse {
			// a gate that refuses more than this still keeps the bound: recorded, not required
			c.Info(ok && !und, "C16.U", "increaseUncommittedSize refuses only over the limit", fnName(incr), p.site(ret), what, detail)
			continue
		}
		if und {
			c.Undecided("C16.U", "increaseUncommittedSize gate", fnName(incr), p.site(ret), what, detail)
		} else {
			c.Result(ok, "C16.U", "increaseUncommittedSize gate", fnName(incr), p.site(ret), what, detail)
		}
	}
	// accounting: += s on accept, saturating reduce, reset zeroes
	for _, st := range p.StoresTo(uncomF) {
		if st.Whole || st.Fresh {
			continue
		}
		sfi := p.Info(st.Fn)
		v := sfi.Sym(st.Val)
		base := storeBase(sfi, st)
		site := p.site(st.Instr)
		switch st.Fn {
		case incr:
			d := LinOf(v)
			d.add(LinOf(FieldOf(base, uncomF)), -1)
			d.add(LinOf(s), -1)
			c.Result(len(d.T) == 0 && d.K == 0, "C16.U", "uncommittedSize += s", fnName(st.Fn), site, "accepted proposals are accounted exactly", v.Key())
		case reduce:
			z, isC := constInt64(v.C)
			if v.K == KConst && isC && z == 0 {
				c.Ok("C16.U", "uncommittedSize saturates at 0", fnName(st.Fn), site, "never underflows", "")
			} else {
				f := sfi.FactsAt(st.Instr)
				prm := sfi.Sym(reduce.Params[1])
				// what is subtracted: s itself (then s <= uncommittedSize must be known), or min(s, uncommittedSize)
				d := LinOf(FieldOf(base, uncomF))
				d.add(LinOf(v), -1)
				okSub := false
				if len(d.T) == 1 && d.K == 0 {
					for k, co := range d.T {
						x := d.S[k]
						switch {
						case co != 1:
						case x.Key() == prm.Key():
							okSub = f.ImpliesCmp(prm, "<=", FieldOf(base, uncomF))
						case x.K == KBuiltin && x.Name == "min" && len(x.Args) == 2:
							a, b := x.Args[0].Key(), x.Args[1].Key()
							o := FieldOf(base, uncomF).Key()
							okSub = a == prm.Key() && b == o || b == prm.Key() && a == o
						}
					}
				}
				c.Result(okSub, "C16.U", "uncommittedSize -= s", fnName(st.Fn), site, "subtract s only when s <= uncommittedSize (or subtract min(s, uncommittedSize))", v.Key()+" {"+strings.Join(f.Describe(), "; ")+"}")
			}
		case reset:
			z, isC := constInt64(v.C)
			c.Result(v.K == KConst && isC && z == 0, "C16.U", "reset zeroes uncommittedSize", fnName(st.Fn), site, "a new leadership starts with no debt", v.Key())
		default:
			c.Bad("C16.U", "store raft.uncommittedSize", fnName(st.Fn), site, "only increase/reduceUncommittedSize and reset", "")
		}
	}
	// each entry's payload is released exactly once: when its application is acknowledged
	if reduce != nil {
		step := p.Method("raft", "raft", "Step")
		getType := p.Method("raftpb", "Message", "GetType")
		applyResp := p.ConstVal("raftpb", "MsgStorageApplyResp")
		nRel := 0
		for _, cs := range p.CallsTo(reduce) {
			nRel++
			cfi := p.Info(cs.Caller)
			ok := false
			detail := "caller is not Step"
			if cs.Caller == step && getType != nil {
				m := cfi.Sym(step.Params[1])
				f := cfi.FactsAt(cs.Instr)
				ok = f.EnumFact(CallSym(getType, m), applyResp) == 1
				a := cfi.Sym(callArgs(cs.Instr)[1])
				ok = ok && a.K == KCall && a.Fn == payloadsSize && strings.HasPrefix(a.Args[0].Key(), m.Key())
				detail = "argument " + sanitizeKey(a.Key())
			}
			c.Result(ok, "C16.U", "release of uncommitted bytes", fnName(cs.Caller), p.site(cs.Instr), "only Step on MsgStorageApplyResp, with payloadsSize of that message's entries (released once per entry)", detail)
		}
		c.Result(nRel >= 1, "C16.U", "uncommitted bytes are released", fnName(reduce), p.Pos(reduce.Pos()), "reduceUncommittedSize is called", fmt.Sprint(nRel))
	}
	// stepLeader maps a false appendEntry to ErrProposalDropped (shared with C20.D)
	if stepLeader != nil {
		sfi := p.Info(stepLeader)
		for _, ci := range p.CallsIn(stepLeader, appendEntry) {
			// on the false edge the function returns the ErrProposalDropped value
			ok := false
			call := ci.Value()
			for _, ret := range returnsOf(sfi) {
				f := sfi.FactsAt(ret)
				tested := &Facts{FI: sfi, Atoms: f.Tested}
				if tested.HasBool(func(s *Sym) bool { return s.V == ssa.Value(call) }, false) != nil {
					rv := sfi.RetSym(ret, 0)
					if strings.Contains(rv.Key(), "ErrProposalDropped") {
						ok = true
					}
				}
			}
			c.Result(ok, "C16.U", "dropped proposal is reported", fnName(stepLeader), p.site(ci), "!appendEntry(...) => return ErrProposalDropped", "")
		}
	}
}

func c16SnapshotExit(c *Check) {
	p := c.P
	stateF := p.Field("tracker", "Progress", "State")
	snapshotSt := p.ConstVal("tracker", "StateSnapshot")
	getType := p.Method("raftpb", "Message", "GetType")
	stepLeader := p.Func("raft", "stepLeader")
	becomeLeader := p.Method("raft", "raft", "becomeLeader")
	snapStatus := p.ConstVal("raftpb", "MsgSnapStatus")
	appResp := p.ConstVal("raftpb", "MsgAppResp")
	n := 0
	for _, name := range []string{"BecomeProbe", "BecomeReplicate"} {
		fn := p.Method("tracker", "Progress", name)
		if fn == nil {
			continue
		}
		for _, cs := range p.CallsTo(fn) {
			if fnPkg(cs.Caller).Path() != pkgPaths["raft"] {
				continue
			}
			n++
			fi := p.Info(cs.Caller)
			site := p.site(cs.Instr)
			pr := fi.Sym(callArgs(cs.Instr)[0])
			if cs.Caller == becomeLeader {
				c.Ok("C16.S", "state change of the leader's own progress", fnName(cs.Caller), site, "fresh progress after reset", "")
				continue
			}
			notSnap := bfNot(bfCmp(FieldOf(pr, stateF), "==", constSym(snapshotSt)))
			spec := notSnap
			if cs.Caller == stepLeader {
				m := fi.Sym(stepLeader.Params[1])
				typeIs := func(t int64) *BF { return bfCmp(CallSym(getType, m), "==", constSym(t)) }
				// allowed exits: the snapshot status report, and a MsgAppResp (the catching-up arm tests Match+1 >= firstIndex itself)
				spec = bfOr(notSnap, typeIs(snapStatus), typeIs(appResp))
			}
			ok, und, detail := fi.pathsImplyOpt(cs.Instr, -1, spec, true)
			req := "a peer in StateSnapshot is moved to another state only by MsgSnapStatus or an acknowledging MsgAppResp"
			if und {
				c.Undecided("C16.S", "call "+name, fnName(cs.Caller), site, req, detail)
			} else {
				c.Result(ok, "C16.S", "call "+name, fnName(cs.Caller), site, req, detail)
			}
		}
	}
	c.Result(n >= 6, "C16.S", "progress state transitions in raft", "-", "-", "call sites enumerated", fmt.Sprint(n))
	// the MsgAppResp exit from StateSnapshot requires Match+1 >= firstIndex()
	if stepLeader != nil {
		fi := p.Info(stepLeader)
		m := fi.Sym(stepLeader.Params[1])
		becomeProbe := p.Method("tracker", "Progress", "BecomeProbe")
		firstIndex := p.Method("raft", "raftLog", "firstIndex")
		for _, ci := range p.CallsIn(stepLeader, becomeProbe) {
			f := fi.FactsAt(ci)
			if f.EnumFact(CallSym(getType, m), appResp) != 1 {
				continue
			}
			pr := fi.Sym(callArgs(ci)[0])
			tested := &Facts{FI: fi, Atoms: f.Tested}
			if tested.EnumFact(FieldOf(pr, stateF), snapshotSt) != 1 {
				continue
			}
			okG := false
			for _, a := range tested.Atoms {
				if a.K == ALe {
					for _, s := range a.L.S {
						if s.K == KCall && s.Fn == firstIndex {
							okG = true
						}
					}
				}
			}
			c.Result(okG, "C16.S", "acknowledgement exit from StateSnapshot", fnName(stepLeader), p.site(ci), "only when pr.Match+1 >= firstIndex() (the follower can be served from the log again)", strings.Join(f.Describe(), "; "))
		}
	}
}

func c16Limits(c *Check) {
	p := c.P
	mk := p.Func("tracker", "MakeProgressTracker")
	newInfl := p.Func("tracker", "NewInflights")
	okName := func(s *Sym, names ...string) bool {
		if s.K != KField {
			return false
		}
		for _, n := range names {
			if s.Fld.Name() == n {
				return true
			}
		}
		return false
	}
	for _, fn := range []*ssa.Function{mk, newInfl} {
		if fn == nil {
			continue
		}
		for _, cs := range p.CallsTo(fn) {
			if cs.Caller == mk {
				continue
			}
			fi := p.Info(cs.Caller)
			a := callArgs(cs.Instr)
			a0, a1 := fi.Sym(a[0]), fi.Sym(a[1])
			ok := okName(a0, "MaxInflight", "MaxInflightMsgs") && okName(a1, "MaxInflightBytes")
			c.Result(ok, "C16.I", "limits passed to "+fn.Name(), fnName(cs.Caller), p.site(cs.Instr), "(MaxInflight[Msgs], MaxInflightBytes) taken from the Config or the current tracker", fmt.Sprintf("(%s, %s)", sanitizeKey(a0.Key()), sanitizeKey(a1.Key())))
		}
	}
	// a peer's window is created with its Progress (new peer, or every peer at a leadership change)
	// and never replaced afterwards: what is in flight must stay counted until it is acknowledged
	inflF := p.Field("tracker", "Progress", "Inflights")
	reset := p.Method("raft", "raft", "reset")
	initProgress := p.Method("confchange", "Changer", "initProgress")
	if inflF != nil && reset != nil && initProgress != nil {
		n := 0
		for _, st := range p.StoresTo(inflF) {
			if st.Whole {
				// a struct copy carries the same window; a whole-record store of a freshly built
				// literal creates one
				ld, isLd := st.Val.(*ssa.UnOp)
				if !isLd {
					continue
				}
				if _, fromLit := ld.X.(*ssa.Alloc); !fromLit {
					continue
				}
				if tgt, isAl := st.Addr.(*ssa.Alloc); isAl && !pointerEscapes(tgt) {
					continue
				}
			}
			top := st.Fn
			for top.Parent() != nil {
				top = top.Parent()
			}
			// a by-value copy handed to the application (Status, WithProgress) is not a tracker record:
			// the copy's address goes nowhere
			if fa, isFA := st.Addr.(*ssa.FieldAddr); isFA {
				if al, isAl := fa.X.(*ssa.Alloc); isAl && !pointerEscapes(al) {
					c.OkTrivial("C16.I", "store Progress.Inflights on a private copy", fnName(st.Fn), p.site(st.Instr), "a by-value copy whose address does not escape", "")
					continue
				}
			}
			n++
			ok := calledOnlyFrom(p, top, map[*ssa.Function]bool{reset: true, initProgress: true}, 0)
			c.Result(ok, "C16.I", "store Progress.Inflights", fnName(st.Fn), p.site(st.Instr), "windows are created only in raft.reset (leadership change) and Changer.initProgress (new peer)", "")
		}
		c.Result(n >= 1, "C16.I", "window creation sites", "-", "-", "reset and initProgress create windows", fmt.Sprint(n))
	}
}

// pointerEscapes: the allocation's address is used as a value somewhere (stored, put in a map or
// slice, passed, returned, captured) rather than only dereferenced through field/element access.
func pointerEscapes(al *ssa.Alloc) bool {
	if al.Referrers() == nil {
		return true
	}
	for _, ref := range *al.Referrers() {
		switch x := ref.(type) {
		case *ssa.FieldAddr, *ssa.IndexAddr:
			// access path
		case *ssa.UnOp:
			// load of the whole value
		case *ssa.Store:
			if x.Val == ssa.Value(al) {
				return true
			}
		case *ssa.DebugRef:
		default:
			return true
		}
	}
	return false
}

// c16FreeLE — C16.I: FreeLE releases only messages whose last index is at or below the
// acknowledged index: whatever it accumulates (bytes, count) for an element is behind the test
// `!(to < element.index)`. An acknowledgement that falls inside a multi-entry message must not
// release that message.
func c16FreeLE(c *Check) {
	p := c.P
	freeLE := p.Method("tracker", "Inflights", "FreeLE")
	bytesF := p.Field("tracker", "inflight", "bytes")
	indexF := p.Field("tracker", "inflight", "index")
	if freeLE == nil || bytesF == nil || indexF == nil {
		return
	}
	fi := p.Info(freeLE)
	to := fi.Sym(freeLE.Params[1])
	n := 0
	for _, in := range p.liveInstrsOf(freeLE) {
		bo, ok := in.(*ssa.BinOp)
		if !ok || bo.Op != token.ADD {
			continue
		}
		for _, opnd := range []ssa.Value{bo.X, bo.Y} {
			sy := fi.Sym(opnd)
			if sy.K != KField || sy.Fld != bytesF || len(sy.Args) == 0 {
				continue
			}
			n++
			elem := sy.Args[0]
			f := fi.FactsAt(in)
			tested := &Facts{FI: fi, Atoms: f.Tested}
			ok := tested.ImpliesCmp(FieldOf(elem, indexF), "<=", to)
			c.Result(ok, "C16.I", "FreeLE accounts an in-flight message as released", fnName(freeLE), p.site(in), "only behind !(to < message.index): messages not fully acknowledged stay counted", strings.Join(f.Describe(), "; "))
		}
	}
	c.Result(n >= 1, "C16.I", "FreeLE accumulates released bytes", fnName(freeLE), p.Pos(freeLE.Pos()), "the released byte count is summed from the released messages", fmt.Sprint(n))
}
