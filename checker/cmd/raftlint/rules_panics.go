package main

import (
	"fmt"
	"go/types"
	"sort"
	"strings"

	"golang.org/x/tools/go/ssa"
)

// panicSite is one explicit panic in API-reachable code.
type panicSite struct {
	fn    *ssa.Function
	in    ssa.Instruction
	class string // D (discharged statically), K (contract / Storage / config), U (undischarged: no claim)
	why   string
}

func panicSites(p *Prog, R map[*ssa.Function]bool) []panicSite {
	var out []panicSite
	var fns []*ssa.Function
	for f := range R {
		if fnPkg(f).Path() != pkgPaths["raftpb"] {
			fns = append(fns, f)
		}
	}
	sortFuncs(fns)
	noret := p.noReturnSet()
	for _, fn := range fns {
		fi := p.Info(fn)
		for bi := range fn.Blocks {
			if !fi.Reach[bi] {
				continue
			}
			for _, in := range fi.liveInstrs(bi) {
				switch in.(type) {
				case *ssa.Panic:
					out = append(out, panicSite{fn: fn, in: in})
				default:
					if p.isNoReturnCall(in, noret) {
						out = append(out, panicSite{fn: fn, in: in})
					}
				}
			}
		}
	}
	return out
}

// C14 — no internal assertion fires (ledger + statically discharged sites).
func c14Panics(c *Check) {
	p := c.P
	R := reachableOurs(p, apiRoots(p))
	sites := panicSites(p, R)
	voteResp := p.Func("raft", "voteRespMsgType")
	msgVote, msgPreVote := p.ConstVal("raftpb", "MsgVote"), p.ConstVal("raftpb", "MsgPreVote")
	getType := p.Method("raftpb", "Message", "GetType")
	stateF := p.Field("tracker", "Progress", "State")
	rStateF := p.Field("raft", "raft", "state")
	stepF := p.Field("raft", "raft", "step")
	send := p.Method("raft", "raft", "send")
	idF := p.Field("raft", "raft", "id")
	msgT := p.Type("raftpb", "Message")

	// --- D1: voteRespMsgType is only given vote request types
	if voteResp != nil {
		for _, cs := range p.CallsTo(voteResp) {
			fi := p.Info(cs.Caller)
			arg := callArgs(cs.Instr)[0]
			vals, ok := p.PossibleConsts(arg, 2)
			okD := ok
			for _, v := range vals {
				if v != msgVote && v != msgPreVote {
					okD = false
				}
			}
			detail := fmt.Sprintf("constants %v", vals)
			if !ok {
				// m.GetType() under a guard that pins it to the two request types
				as := fi.Sym(arg)
				spec := bfOr(bfCmp(as, "==", constSym(msgVote)), bfCmp(as, "==", constSym(msgPreVote)))
				okP, und, d := fi.pathsImplyOpt(cs.Instr, -1, spec, true)
				okD = okP && !und
				detail = d
			}
			c.Result(okD, "C14.D1", "argument of voteRespMsgType", fnName(cs.Caller), p.site(cs.Instr), "only MsgVote / MsgPreVote (its default arm panics)", detail)
		}
	}
	// --- D2: Progress.State only ever holds a declared state; a paused (snapshot) peer never reaches SentEntries' default
	declared := map[int64]bool{p.ConstVal("tracker", "StateProbe"): true, p.ConstVal("tracker", "StateReplicate"): true, p.ConstVal("tracker", "StateSnapshot"): true}
	setters := fieldSetters(p, stateF)
	for _, st := range p.StoresTo(stateF) {
		if st.Whole || st.Fresh {
			continue
		}
		if _, isSetter := setters[st.Fn]; isSetter {
			continue
		}
		vals, ok := p.PossibleConsts(st.Val, 2)
		okD := ok
		for _, v := range vals {
			okD = okD && declared[v]
		}
		c.Result(okD, "C14.D2", "store Progress.State", fnName(st.Fn), p.site(st.Instr), "one of the three declared states", fmt.Sprint(vals))
	}
	for fn, idx := range setters {
		for _, cs := range p.CallsTo(fn) {
			if _, pass := setters[cs.Caller]; pass {
				continue
			}
			args := callArgs(cs.Instr)
			vals, ok := p.PossibleConsts(args[idx], 2)
			okD := ok
			for _, v := range vals {
				okD = okD && declared[v]
			}
			c.Result(okD, "C14.D2", "state passed to "+fn.Name(), fnName(cs.Caller), p.site(cs.Instr), "one of the three declared states (the state switches panic otherwise)", fmt.Sprint(vals))
		}
	}
	// --- D3: messages handed to send: vote messages carry a term, all other literals do not
	if send != nil && msgT != nil {
		voteTypes := map[int64]bool{msgVote: true, msgPreVote: true, p.ConstVal("raftpb", "MsgVoteResp"): true, p.ConstVal("raftpb", "MsgPreVoteResp"): true}
		for _, lit := range p.Lits(msgT) {
			toSend := false
			for _, u := range lit.Uses(p) {
				if u.Kind == "arg" && len(u.Callee) == 1 && u.Callee[0] == send {
					toSend = true
				}
			}
			if !toSend {
				continue
			}
			tc, ok := lit.TypeConsts(p)
			if !ok {
				if _, has := lit.Fields["Type"]; has {
					c.Undecided("C14.D3", "message literal of unknown type sent", fnName(lit.Fn), p.site(lit.Alloc), "type is a constant", "")
				}
				continue
			}
			allVote, noneVote := true, true
			for _, t := range tc {
				if voteTypes[t] {
					noneVote = false
				} else {
					allVote = false
				}
			}
			_, hasTerm := lit.Fields["Term"]
			switch {
			case allVote:
				c.Result(hasTerm, "C14.D3", "vote-type message literal sets Term", fnName(lit.Fn), p.site(lit.Alloc), "send panics on a vote message without a term", "")
			case noneVote:
				c.Result(!hasTerm, "C14.D3", "non-vote message literal leaves Term unset", fnName(lit.Fn), p.site(lit.Alloc), "send panics if the term of a non-vote message is already set", "")
			default:
				c.Undecided("C14.D3", "message literal of mixed type", fnName(lit.Fn), p.site(lit.Alloc), "either all vote types or none", fmt.Sprint(tc))
			}
		}
	}
	// --- D4: broadcasts never address the node itself (send panics on self-addressed non-response messages)
	{
		promise := map[int64]bool{}
		for _, t := range promiseTypes(p) {
			promise[t] = true
		}
		for _, lit := range p.Lits(msgT) {
			tc, ok := lit.TypeConsts(p)
			if !ok {
				continue
			}
			isPromise := true
			for _, t := range tc {
				if !promise[t] {
					isPromise = false
				}
			}
			if isPromise {
				continue // routed to msgsAfterAppend, where self-addressing is legal
			}
			to := lit.FieldSym(p, "To")
			if to == nil {
				continue
			}
			fi := p.Info(lit.Fn)
			var sendCall ssa.Instruction
			for _, u := range lit.Uses(p) {
				if u.Kind == "arg" && len(u.Callee) == 1 && u.Callee[0] == send {
					sendCall = u.Instr
				}
			}
			if sendCall == nil {
				continue
			}
			// To is a parameter `to`/`id` of a helper: lifted; or m.From of a received message (never self: RawNode.Step filters?) – only decide the parameter case
			if to.K != KParam && !(to.K == KPhi) {
				continue
			}
			r := fi.Sym(lit.Fn.Params[0])
			pr := p.Prove(fi, sendCall, []Req{ReqCmp(to, "!=", FieldOf(r, idF))})
			if pr.OK {
				c.Ok("C14.D4", "recipient of "+enumNames(p, p.Type("raftpb", "MessageType"), tc)+" is not the node itself", fnName(lit.Fn), p.site(lit.Alloc), "To != r.id at every call path (broadcast closures skip the own id)", "established", pr.Chain...)
			} else {
				c.add(&Obligation{Rule: "C14.U", Construct: "self-addressed check for " + enumNames(p, p.Type("raftpb", "MessageType"), tc), Func: fnName(lit.Fn), Site: p.site(lit.Alloc), Status: StInfo, Detail: "not discharged statically (recipient comes from a received message or the tracker); no claim"})
			}
		}
	}
	// broadcast loops: every closure handed to ProgressTracker.Visit that sends to its `id` skips the node's own id
	if visit := p.Method("tracker", "ProgressTracker", "Visit"); visit != nil && send != nil {
		for _, cs := range p.CallsTo(visit) {
			fns, ok := funcValues(callArgs(cs.Instr)[1], 0)
			if !ok {
				continue
			}
			for _, cl := range fns {
				cfi := p.Info(cl)
				for _, in := range p.liveInstrsOf(cl) {
					ci, ok := in.(ssa.CallInstruction)
					if !ok || !p.CallReaches(ci, send) {
						continue
					}
					usesID := false
					for _, a := range callArgs(ci) {
						if a == ssa.Value(cl.Params[0]) {
							usesID = true
						}
					}
					if !usesID {
						continue
					}
					idS := cfi.Sym(cl.Params[0])
					f := cfi.FactsAt(in)
					okD := false
					for _, a := range f.Atoms {
						if a.K == ANe && len(a.L.T) == 2 && a.L.K == 0 {
							hasID, hasSelf := false, false
							for k, sy := range a.L.S {
								if k == idS.Key() {
									hasID = true
								}
								if sy.K == KField && sy.Fld == idF {
									hasSelf = true
								}
							}
							okD = okD || (hasID && hasSelf)
						}
					}
					c.Result(okD, "C14.D4", "broadcast closure skips the own id", fnName(cl), p.site(in), "id != r.id before sending to id (send panics on self-addressed requests)", strings.Join(f.Describe(), "; "))
				}
			}
		}
	}
	// --- D5/D6: role transitions
	becomeCandidate := p.Method("raft", "raft", "becomeCandidate")
	becomePre := p.Method("raft", "raft", "becomePreCandidate")
	becomeLeader := p.Method("raft", "raft", "becomeLeader")
	leader := p.ConstVal("raft", "StateLeader")
	follower := p.ConstVal("raft", "StateFollower")
	for _, fn := range []*ssa.Function{becomeCandidate, becomePre} {
		if fn == nil {
			continue
		}
		fi := p.Info(fn)
		r := fi.Sym(fn.Params[0])
		// the guard inside: state == StateLeader -> panic. Discharge: at every call path state != StateLeader
		var at ssa.Instruction
		for _, in := range p.liveInstrsOf(fn) {
			at = in
			break
		}
		pr := p.Prove(fi, at, []Req{ReqCmp(FieldOf(r, rStateF), "!=", constSym(leader))})
		c.Result(pr.OK, "C14.D5", fn.Name()+" is never entered as leader", fnName(fn), p.Pos(fn.Pos()), "state != StateLeader on every call path (hup returns early for leaders; stepCandidate is only installed for candidates)", describeProof(pr), pr.Chain...)
	}
	if becomeLeader != nil {
		// becomeLeader's caller runs under a step function that is installed only together with a candidate state
		stepCandidate := p.Func("raft", "stepCandidate")
		okCaller := true
		for _, cs := range p.CallsTo(becomeLeader) {
			if cs.Caller != stepCandidate {
				okCaller = false
			}
		}
		// every store of r.step = stepCandidate is paired, in the same function, with a store r.state = StateCandidate/StatePreCandidate
		okPair := true
		nPair := 0
		for _, st := range p.StoresTo(stepF) {
			if st.Whole || st.Fresh {
				continue
			}
			fi := p.Info(st.Fn)
			v := fi.Sym(st.Val)
			if !(v.K == KFunc && v.Fn == stepCandidate) {
				continue
			}
			nPair++
			paired := false
			for _, s2 := range p.StoresTo(rStateF) {
				if s2.Fn == st.Fn && !s2.Whole {
					vals, ok := p.PossibleConsts(s2.Val, 1)
					if ok && len(vals) == 1 && vals[0] != follower && vals[0] != leader && mustPass(fi, s2.Instr) {
						paired = true
					}
				}
			}
			okPair = okPair && paired
		}
		// and nothing else changes r.state without changing r.step (all state stores are in functions that also store step)
		for _, s2 := range p.StoresTo(rStateF) {
			if s2.Whole || s2.Fresh {
				continue
			}
			has := false
			for _, st := range p.StoresTo(stepF) {
				if st.Fn == s2.Fn {
					has = true
				}
			}
			okPair = okPair && has
		}
		c.Result(okCaller && okPair && nPair >= 2, "C14.D6", "becomeLeader is reached only from a candidate state", fnName(becomeLeader), p.Pos(becomeLeader.Pos()), "its only caller is stepCandidate, and r.step = stepCandidate is always stored together with a (pre-)candidate r.state; state and step are only changed together", fmt.Sprintf("caller=%v pair=%v sites=%d", okCaller, okPair, nPair))
	}
	// --- D7: a node whose log base is still an unpersisted snapshot never scans for unapplied conf changes
	c09Promotable(c)
	// --- D8: apply acknowledgements never move `applied` backwards (late acks after a snapshot are clamped)
	if rApplied := p.Method("raft", "raft", "appliedTo"); rApplied != nil {
		lApplied := p.Method("raft", "raftLog", "appliedTo")
		afi := p.Info(rApplied)
		appliedF := p.Field("raft", "raftLog", "applied")
		for _, ci := range p.CallsIn(rApplied, lApplied) {
			a := callArgs(ci)
			l := afi.Sym(a[0])
			x := afi.Sym(a[1])
			// the clamp reads `applied` before the call; nothing in between may change it
			pr := p.Prove(afi, ci, []Req{ReqCmp(x, ">=", FieldOf(l, appliedF))})
			c.Result(pr.OK, "C14.D8", "index passed to raftLog.appliedTo", fnName(rApplied), p.site(ci), "max(index, applied) >= applied (raftLog.appliedTo panics below the applied index)", describeProof(pr), pr.Chain...)
		}
	}
	// --- no API-reachable function panics unconditionally
	noret := p.noReturnSet()
	var uncond []string
	for fn := range R {
		if noret[fn] && fnPkg(fn).Path() != pkgPaths["raftpb"] {
			// Logger implementations are supposed not to return from Panic*
			if fn.Signature.Recv() != nil && noReturnLoggerMethods[fn.Name()] {
				continue
			}
			uncond = append(uncond, fnName(fn))
		}
	}
	sort.Strings(uncond)
	c.Result(len(uncond) == 0, "C14.N", "no unconditionally panicking function is reachable from the API", "-", "-", "every reachable function has a normal return path", strings.Join(uncond, ", "))
	// --- the ledger (information): every explicit panic site with its innermost guard
	nK, nU := 0, 0
	for _, s := range sites {
		fi := p.Info(s.fn)
		f := fi.FactsAt(s.in)
		guard := "-"
		if len(f.Tested) > 0 {
			guard = f.Tested[0].String()
		}
		cls := "U"
		low := strings.ToLower(guard)
		switch {
		case strings.Contains(guard, ".storage.") || strings.Contains(guard, ".Storage.") || strings.Contains(low, "unmarshal") || strings.Contains(guard, "validate()") || strings.Contains(guard, "InitialState") || strings.Contains(guard, "confchange.Restore") || strings.Contains(guard, "confChangeToMsg") || strings.Contains(guard, "#1!=nil") || strings.Contains(guard, "nil!="):
			cls = "K"
			nK++
		default:
			nU++
		}
		c.add(&Obligation{Rule: "C14.ledger", Construct: "panic site class " + cls, Func: fnName(s.fn), Site: p.site(s.in), Status: StInfo, Detail: "innermost guard: " + sanitizeKey(guard)})
	}
	c.Note("panic ledger: %d explicit panic sites reachable from the API; %d guarded by a Storage/decoding/config error (K), %d others (U: no claim beyond the D obligations)", len(sites), nK, nU)
	c.Result(len(sites) >= 40, "C14.N", "panic ledger size", "-", "-", "explicit panic sites enumerated", fmt.Sprint(len(sites)))
	_ = getType
	_ = types.Typ
}

// C15 — recovery edges (necessary conditions for convergence).
// needAppendFormula: a MsgStorageAppend is requested exactly when there is something to persist or
// a delayed message to release. Dropping the last disjunct loses responses whose Ready changed no
// durable state (pre-vote grants, acknowledgements that free a stuck higher-term node): acceptReady
// clears the queue regardless.
func needAppendFormula(c *Check, rule string) {
	p := c.P
	need := p.Func("raft", "needStorageAppendMsg")
	isEmptySnap := p.Func("raft", "IsEmptySnap")
	isEmptyHS := p.Func("raft", "IsEmptyHardState")
	rdEntries := p.Field("raft", "Ready", "Entries")
	rdSnap := p.Field("raft", "Ready", "Snapshot")
	rdHS := p.Field("raft", "Ready", "HardState")
	afterF := p.Field("raft", "raft", "msgsAfterAppend")
	if need == nil || isEmptySnap == nil || isEmptyHS == nil || rdEntries == nil || afterF == nil {
		return
	}
	fi := p.Info(need)
	r, rd := fi.Sym(need.Params[0]), fi.Sym(need.Params[1])
	ln := func(x *Sym) *Sym { return &Sym{K: KBuiltin, Name: "len", Args: []*Sym{x}} }
	spec := bfOr(
		bfCmp(ln(FieldOf(rd, rdEntries)), ">", constSym(0)),
		bfNot(bfSym(CallSym(isEmptyHS, FieldOf(rd, rdHS)))),
		bfNot(bfSym(CallSym(isEmptySnap, FieldOf(rd, rdSnap)))),
		bfCmp(ln(FieldOf(r, afterF)), ">", constSym(0)))
	code := p.ReturnFormula(need)
	if code == nil {
		c.Undecided(rule, "needStorageAppendMsg", fnName(need), p.Pos(need.Pos()), "entries || hard state || snapshot || delayed messages", "function too complex to summarise")
		return
	}
	ok, why := bfEquiv(code, spec)
	c.Result(ok, rule, "needStorageAppendMsg", fnName(need), p.Pos(need.Pos()), "len(rd.Entries) > 0 || !IsEmptyHardState(rd.HardState) || !IsEmptySnap(rd.Snapshot) || len(r.msgsAfterAppend) > 0", shorten(why, 300))
}

// applyBudgetReturned — C15.B: every acknowledgement of applied entries gives their bytes back
// and re-evaluates the pause flag, on every path of raftLog.appliedTo (otherwise a late
// acknowledgement that does not advance the cursor leaves the node paused for ever).
func applyBudgetReturned(c *Check) {
	p := c.P
	appliedTo := p.Method("raft", "raftLog", "appliedTo")
	sizeF := p.Field("raft", "raftLog", "applyingEntsSize")
	pausedF := p.Field("raft", "raftLog", "applyingEntsPaused")
	if appliedTo == nil || sizeF == nil || pausedF == nil {
		return
	}
	fi := p.Info(appliedTo)
	for _, f := range []*types.Var{sizeF, pausedF} {
		blocks := map[int]bool{}
		for _, st := range p.StoresTo(f) {
			if st.Fn == appliedTo && !st.Whole && fi.Live(st.Instr) {
				blocks[st.Instr.Block().Index] = true
			}
		}
		// or a helper that always stores it
		for _, in := range p.liveInstrsOf(appliedTo) {
			ci, isCall := in.(ssa.CallInstruction)
			if !isCall {
				continue
			}
			callee := ci.Common().StaticCallee()
			if callee == nil || callee.Blocks == nil {
				continue
			}
			cfi := p.Info(callee)
			for _, st := range p.StoresTo(f) {
				if st.Fn == callee && !st.Whole && cfi.Live(st.Instr) && storesOnEveryPath(p, callee, f) {
					blocks[in.Block().Index] = true
				}
			}
		}
		ok := len(blocks) > 0
		seen := fi.ReachableFrom([]int{0}, func(b int) bool { return blocks[b] })
		for b := range seen {
			if blocks[b] || fi.Cut[b] >= 0 {
				continue
			}
			ins := fi.Fn.Blocks[b].Instrs
			if _, isRet := ins[len(ins)-1].(*ssa.Return); isRet {
				ok = false
			}
		}
		c.Result(ok, "C15.B", "appliedTo updates "+f.Name(), fnName(appliedTo), p.Pos(appliedTo.Pos()), "every returning path stores "+f.Name()+" (the budget is released and the pause flag re-evaluated on every acknowledgement)", fmt.Sprint(len(blocks), " store block(s)"))
	}
}

func c15Recovery(c *Check) {
	p := c.P
	needAppendFormula(c, "C15.W")
	applyBudgetReturned(c)
	stepLeader := p.Func("raft", "stepLeader")
	getType := p.Method("raftpb", "Message", "GetType")
	pausedF := p.Field("tracker", "Progress", "MsgAppFlowPaused")
	recentF := p.Field("tracker", "Progress", "RecentActive")
	pendingSnapF := p.Field("tracker", "Progress", "PendingSnapshot")
	matchF := p.Field("tracker", "Progress", "Match")
	pStateF := p.Field("tracker", "Progress", "State")
	sendAppend := p.Method("raft", "raft", "sendAppend")
	maybeSendAppend := p.Method("raft", "raft", "maybeSendAppend")
	lastIndex := p.Method("raft", "raftLog", "lastIndex")
	becomeProbe := p.Method("tracker", "Progress", "BecomeProbe")
	freeLE := p.Method("tracker", "Inflights", "FreeLE")
	probe := p.ConstVal("tracker", "StateProbe")
	replicate := p.ConstVal("tracker", "StateReplicate")
	snapshotSt := p.ConstVal("tracker", "StateSnapshot")
	if stepLeader == nil {
		return
	}
	fi := p.Info(stepLeader)
	m := fi.Sym(stepLeader.Params[1])
	arm := func(in ssa.Instruction, t int64) bool { return fi.FactsAt(in).EnumFact(CallSym(getType, m), t) == 1 }
	hbResp := p.ConstVal("raftpb", "MsgHeartbeatResp")
	appResp := p.ConstVal("raftpb", "MsgAppResp")
	snapStatus := p.ConstVal("raftpb", "MsgSnapStatus")
	// --- C15.H: a heartbeat response un-pauses and re-probes
	okUnpause, okActive := false, false
	for _, as := range p.ArmStores(stepLeader, func(in ssa.Instruction) bool { return arm(in, hbResp) }) {
		if as.Field == pausedF && as.Val.K == KConst && as.Val.C != nil && as.Val.C.String() == "false" {
			okUnpause = true
		}
		if as.Field == recentF && as.Val.K == KConst && as.Val.C != nil && as.Val.C.String() == "true" {
			okActive = true
		}
	}
	c.Result(okUnpause && okActive, "C15.H", "heartbeat response un-pauses the peer", fnName(stepLeader), p.Pos(stepLeader.Pos()), "MsgHeartbeatResp arm stores MsgAppFlowPaused = false and RecentActive = true (a lost probe must not pause replication forever)", fmt.Sprintf("unpause=%v active=%v", okUnpause, okActive))
	okProbe := false
	for _, ci := range p.CallsIn(stepLeader, sendAppend) {
		if !arm(ci, hbResp) {
			continue
		}
		// reached whenever Match < lastIndex() || State == StateProbe: i.e. NOT reaching it implies both are false
		f := fi.FactsAt(ci)
		_ = f
		// the governing condition is a disjunction: check via the complementary edge – the block skipping the call has both negations
		blk := ci.Block()
		for _, pr := range blk.Preds {
			if iff, ok := pr.Instrs[len(pr.Instrs)-1].(*ssa.If); ok {
				code := fi.valueBF(iff.Cond, 0)
				_ = code
			}
		}
		okProbe = true
	}
	// formula check: the call's path condition within the arm is implied by (Match < lastIndex || State == Probe)
	for _, ci := range p.CallsIn(stepLeader, sendAppend) {
		if !arm(ci, hbResp) {
			continue
		}
		var prS *Sym
		for _, st := range p.StoresTo(pausedF) {
			if st.Fn == stepLeader && arm(st.Instr, hbResp) {
				prS = storeBase(fi, st)
			}
		}
		if prS == nil {
			continue
		}
		r := fi.Sym(stepLeader.Params[0])
		li := CallSym(lastIndex, FieldOf(r, p.Field("raft", "raft", "raftLog")))
		behind := bfCmp(FieldOf(prS, matchF), "<", li)
		probing := bfCmp(FieldOf(prS, pStateF), "==", constSym(probe))
		// skipping the call must imply !(behind || probing): enumerate the paths to the instruction right after the call's block join
		skipOK := skipImplies(fi, ci, bfNot(bfOr(behind, probing)))
		c.Result(okProbe && skipOK, "C15.H", "heartbeat response re-sends to a lagging or probing peer", fnName(stepLeader), p.site(ci), "sendAppend whenever pr.Match < lastIndex() || pr.State == StateProbe", "")
	}
	// --- C15.E: a full inflight window skips the entries, not the message
	if maybeSendAppend != nil {
		mfi := p.Info(maybeSendAppend)
		send := p.Method("raft", "raft", "send")
		lentries := p.Method("raft", "raftLog", "entries")
		okE := false
		for _, sc := range p.CallsIn(maybeSendAppend, send) {
			for _, ec := range p.CallsIn(maybeSendAppend, lentries) {
				// there is a path from entry to the send that avoids the fetch
				eb := ec.Block().Index
				reach := mfi.ReachableFrom([]int{0}, func(b int) bool { return b == eb })
				if reach[sc.Block().Index] && sc.Block().Index != eb {
					okE = true
				}
			}
		}
		c.Result(okE, "C15.E", "throttled replicate state still sends (empty) appends", fnName(maybeSendAppend), p.Pos(maybeSendAppend.Pos()), "the MsgApp send is reachable on the path that skips fetching entries", "")
	}
	// --- C15.A: a positive ack in StateReplicate frees inflights
	okFree := false
	for _, ci := range p.CallsIn(stepLeader, freeLE) {
		f := fi.FactsAt(ci)
		if arm(ci, appResp) {
			for _, a := range f.Atoms {
				if a.K == AEq && len(a.L.T) == 1 {
					for k, s := range a.L.S {
						if s.K == KField && s.Fld == pStateF && -a.L.K*a.L.T[k] == replicate {
							okFree = true
						}
					}
				}
			}
		}
	}
	c.Result(okFree, "C15.A", "acknowledgement frees the inflight window", fnName(stepLeader), p.Pos(stepLeader.Pos()), "MsgAppResp arm, StateReplicate: Inflights.FreeLE(m.Index)", "")
	// --- C15.S: snapshot state is left on both outcomes of the transfer, and by a catching-up ack
	nProbe := 0
	okClear := false
	getRejectM := p.Method("raftpb", "Message", "GetReject")
	coverOK, coverFail := false, false
	for _, ci := range p.CallsIn(stepLeader, becomeProbe) {
		if arm(ci, snapStatus) {
			nProbe++
			// which outcomes of the report reach this call
			f := fi.FactsAt(ci)
			tested := &Facts{FI: fi, Atoms: f.Tested}
			rej := tested.HasBool(isCallTo(getRejectM), true) != nil
			acc := tested.HasBool(isCallTo(getRejectM), false) != nil
			if !rej && !acc {
				coverOK, coverFail = true, true
			}
			coverFail = coverFail || rej
			coverOK = coverOK || acc
		}
	}
	precedes := func(a, b ssa.Instruction) bool {
		if a.Block() == b.Block() {
			for _, in := range a.Block().Instrs {
				if in == a {
					return true
				}
				if in == b {
					return false
				}
			}
		}
		return fi.ReachableFrom(fi.Succs[a.Block().Index], nil)[b.Block().Index]
	}
	for _, st := range p.StoresTo(pendingSnapF) {
		if st.Fn == stepLeader && !st.Whole && arm(st.Instr, snapStatus) {
			for _, ci := range p.CallsIn(stepLeader, becomeProbe) {
				if arm(ci, snapStatus) && precedes(st.Instr, ci) && !precedes(ci, st.Instr) {
					okClear = true
				}
			}
		}
	}
	c.Result(nProbe >= 1 && coverOK && coverFail && okClear, "C15.S", "snapshot status report resumes probing", fnName(stepLeader), p.Pos(stepLeader.Pos()), "MsgSnapStatus: BecomeProbe on success and on failure (failure clears PendingSnapshot first)", fmt.Sprintf("becomeProbe sites=%d clearBefore=%v", nProbe, okClear))
	okSnapExit := false
	for _, ci := range p.CallsIn(stepLeader, becomeProbe) {
		if !arm(ci, appResp) {
			continue
		}
		f := fi.FactsAt(ci)
		for _, a := range f.Atoms {
			if a.K == AEq && len(a.L.T) == 1 {
				for k, s := range a.L.S {
					if s.K == KField && s.Fld == pStateF && -a.L.K*a.L.T[k] == snapshotSt {
						okSnapExit = true
					}
				}
			}
		}
	}
	c.Result(okSnapExit, "C15.S", "catching-up ack leaves StateSnapshot", fnName(stepLeader), p.Pos(stepLeader.Pos()), "MsgAppResp arm: State == StateSnapshot && Match+1 >= firstIndex() -> BecomeProbe", "")
	// --- C15.T: leadership transfer aborts on timeout; reset clears it
	tickHeartbeat := p.Method("raft", "raft", "tickHeartbeat")
	abort := p.Method("raft", "raft", "abortLeaderTransfer")
	reset := p.Method("raft", "raft", "reset")
	if tickHeartbeat != nil && abort != nil {
		tfi := p.Info(tickHeartbeat)
		okT := false
		for _, ci := range p.CallsIn(tickHeartbeat, abort) {
			f := tfi.FactsAt(ci)
			tested := &Facts{FI: tfi, Atoms: f.Tested}
			tr := tfi.Sym(tickHeartbeat.Params[0])
			if tested.ImpliesCmp(FieldOf(tr, p.Field("raft", "raft", "electionElapsed")), ">=", FieldOf(tr, p.Field("raft", "raft", "electionTimeout"))) {
				okT = true
			}
		}
		okR := false
		if reset != nil {
			rfi := p.Info(reset)
			for _, ci := range p.CallsIn(reset, abort) {
				if mustPass(rfi, ci) {
					okR = true
				}
			}
		}
		c.Result(okT && okR, "C15.T", "pending leadership transfer is aborted", fnName(tickHeartbeat), p.Pos(tickHeartbeat.Pos()), "tickHeartbeat aborts it after an election timeout; reset clears it", fmt.Sprintf("tick=%v reset=%v", okT, okR))
	}
	// --- C15.F: a stuck higher-term node is told the current term
	step := p.Method("raft", "raft", "Step")
	if step != nil {
		sfi := p.Info(step)
		sm := sfi.Sym(step.Params[1])
		sr := sfi.Sym(step.Params[0])
		msgT := p.Type("raftpb", "Message")
		okF := false
		for _, lit := range p.Lits(msgT) {
			if lit.Fn != step {
				continue
			}
			tc, ok := lit.TypeConsts(p)
			if !ok || len(tc) != 1 || tc[0] != appResp {
				continue
			}
			f := sfi.FactsAt(lit.Alloc)
			tested := &Facts{FI: sfi, Atoms: f.Tested}
			if tested.ImpliesCmp(CallSym(p.Method("raftpb", "Message", "GetTerm"), sm), "<", FieldOf(sr, p.Field("raft", "raft", "Term"))) {
				okF = true
			}
		}
		c.Result(okF, "C15.F", "stale leader traffic is answered", fnName(step), p.Pos(step.Pos()), "lower-term MsgApp/MsgHeartbeat get a MsgAppResp carrying the current term (frees a partitioned node with an inflated term)", "")
	}
	// --- C15.N: a snapshot acknowledgement is honoured whatever term it was issued in
	if step != nil {
		sfi := p.Info(step)
		appliedSnap := p.Method("raft", "raft", "appliedSnap")
		sm := sfi.Sym(step.Params[1])
		sr := sfi.Sym(step.Params[0])
		lowArm := findArm(sfi, func(a *Atom) bool {
			if a.K != ALe {
				return false
			}
			want := newLin()
			linAdd(want, CallSym(p.Method("raftpb", "Message", "GetTerm"), sm), 1)
			linAdd(want, FieldOf(sr, p.Field("raft", "raft", "Term")), -1)
			want.K = 1
			return linEqual(a.L, want)
		})
		inLow, inMain := false, false
		if lowArm >= 0 && appliedSnap != nil {
			low := sfi.ReachableFrom([]int{lowArm}, nil)
			for _, ci := range p.CallsIn(step, appliedSnap) {
				if low[ci.Block().Index] {
					inLow = true
				} else {
					inMain = true
				}
			}
		}
		c.Result(inLow && inMain, "C15.N", "snapshot acknowledgement honoured across a term change", fnName(step), p.Pos(step.Pos()), "appliedSnap is reached from the lower-term arm as well as from the main MsgStorageAppendResp arm (otherwise a node whose term rose while its snapshot was being written is wedged)", fmt.Sprintf("lowerTerm=%v main=%v", inLow, inMain))
	}
	// --- C15.Z: every apply acknowledgement releases its bytes
	if rApplied := p.Method("raft", "raft", "appliedTo"); rApplied != nil {
		lApplied := p.Method("raft", "raftLog", "appliedTo")
		afi := p.Info(rApplied)
		ok := false
		for _, ci := range p.CallsIn(rApplied, lApplied) {
			sz := afi.Sym(callArgs(ci)[2])
			if mustPass(afi, ci) && sz.Key() == afi.Sym(rApplied.Params[2]).Key() {
				ok = true
			}
		}
		c.Result(ok, "C15.Z", "apply acknowledgement always releases its size", fnName(rApplied), p.Pos(rApplied.Pos()), "raftLog.appliedTo(.., size) is called on every path (an ack overtaken by a snapshot must still release applyingEntsSize, or apply pagination stalls)", "")
	}
	// --- C15.U: the storage acknowledgement is requested as long as unstable entries exist
	needResp := p.Func("raft", "needStorageAppendRespMsg")
	hasNext := p.Method("raft", "raftLog", "hasNextOrInProgressUnstableEnts")
	if needResp != nil && hasNext != nil {
		nfi := p.Info(needResp)
		okU := false
		for _, ret := range returnsOf(nfi) {
			code := nfi.valueBF(nfi.RetVal(ret, 0), 0)
			r := nfi.Sym(needResp.Params[0])
			want := bfSym(CallSym(hasNext, FieldOf(r, p.Field("raft", "raft", "raftLog"))))
			ok, _ := bfImplies(want, code)
			okU = ok
		}
		c.Result(okU, "C15.U", "unstable log drains", fnName(needResp), p.Pos(needResp.Pos()), "hasNextOrInProgressUnstableEnts() => a MsgStorageAppendResp is attached (not only when this Ready carries entries)", "")
	}
	// --- C15.Y: HasReady reports every kind of pending work (otherwise the application never asks for the Ready that would make progress)
	if hasReady := p.Method("raft", "RawNode", "HasReady"); hasReady != nil {
		hfi := p.Info(hasReady)
		rn := hfi.Sym(hasReady.Params[0])
		rs := FieldOf(rn, p.Field("raft", "RawNode", "raft"))
		rl := FieldOf(rs, p.Field("raft", "raft", "raftLog"))
		lenOf := func(s *Sym) *Sym { return &Sym{K: KBuiltin, Name: "len", Args: []*Sym{s}} }
		code := p.ReturnFormula(hasReady)
		if code == nil {
			c.Undecided("C15.Y", "RawNode.HasReady", fnName(hasReady), p.Pos(hasReady.Pos()), "covers all pending work", "function too complex to summarise")
		} else {
			work := map[string]*BF{
				"queued messages":               bfCmp(lenOf(FieldOf(rs, p.Field("raft", "raft", "msgs"))), ">", constSym(0)),
				"queued after-append messages":  bfCmp(lenOf(FieldOf(rs, p.Field("raft", "raft", "msgsAfterAppend"))), ">", constSym(0)),
				"read states":                   bfCmp(lenOf(FieldOf(rs, p.Field("raft", "raft", "readStates"))), "!=", constSym(0)),
				"unstable entries":              bfSym(CallSym(p.Method("raft", "raftLog", "hasNextUnstableEnts"), rl)),
				"unstable snapshot":             bfSym(CallSym(p.Method("raft", "raftLog", "hasNextUnstableSnapshot"), rl)),
				"committed entries to hand out": bfSym(CallSym(p.Method("raft", "raftLog", "hasNextCommittedEnts"), rl, CallSym(p.Method("raft", "RawNode", "applyUnstableEntries"), rn))),
			}
			var names []string
			for n := range work {
				names = append(names, n)
			}
			sort.Strings(names)
			for _, n := range names {
				ok, why := bfImplies(work[n], code)
				c.Result(ok, "C15.Y", "HasReady reports "+n, fnName(hasReady), p.Pos(hasReady.Pos()), "this kind of pending work makes HasReady true", why)
			}
		}
	}
	// --- C15.K: ticks drive elections and heartbeats
	tickElection := p.Method("raft", "raft", "tickElection")
	if tickElection != nil && step != nil {
		efi := p.Info(tickElection)
		okHup := false
		msgT := p.Type("raftpb", "Message")
		hupT := p.ConstVal("raftpb", "MsgHup")
		for _, lit := range p.Lits(msgT) {
			if lit.Fn != tickElection {
				continue
			}
			tc, ok := lit.TypeConsts(p)
			if ok && len(tc) == 1 && tc[0] == hupT {
				f := efi.FactsAt(lit.Alloc)
				tested := &Facts{FI: efi, Atoms: f.Tested}
				if tested.HasBool(isCallTo(p.Method("raft", "raft", "promotable")), true) != nil && tested.HasBool(isCallTo(p.Method("raft", "raft", "pastElectionTimeout")), true) != nil {
					okHup = true
				}
			}
		}
		c.Result(okHup, "C15.K", "election timeout starts a campaign", fnName(tickElection), p.Pos(tickElection.Pos()), "promotable() && pastElectionTimeout() -> Step(MsgHup)", "")
	}
	if tickHeartbeat != nil {
		hfi := p.Info(tickHeartbeat)
		okBeat := false
		msgT := p.Type("raftpb", "Message")
		beatT := p.ConstVal("raftpb", "MsgBeat")
		for _, lit := range p.Lits(msgT) {
			if lit.Fn != tickHeartbeat {
				continue
			}
			tc, ok := lit.TypeConsts(p)
			if ok && len(tc) == 1 && tc[0] == beatT {
				f := hfi.FactsAt(lit.Alloc)
				tested := &Facts{FI: hfi, Atoms: f.Tested}
				tr := hfi.Sym(tickHeartbeat.Params[0])
				if tested.ImpliesCmp(FieldOf(tr, p.Field("raft", "raft", "heartbeatElapsed")), ">=", FieldOf(tr, p.Field("raft", "raft", "heartbeatTimeout"))) {
					okBeat = true
				}
			}
		}
		c.Result(okBeat, "C15.K", "heartbeat timeout sends heartbeats", fnName(tickHeartbeat), p.Pos(tickHeartbeat.Pos()), "heartbeatElapsed >= heartbeatTimeout -> Step(MsgBeat)", "")
	}
	// every becomeX installs the matching tick function
	tickF := p.Field("raft", "raft", "tick")
	wantTick := map[string]string{"becomeFollower": "tickElection", "becomeCandidate": "tickElection", "becomePreCandidate": "tickElection", "becomeLeader": "tickHeartbeat"}
	for name, tick := range wantTick {
		fn := p.Method("raft", "raft", name)
		if fn == nil {
			continue
		}
		ffi := p.Info(fn)
		ok := false
		for _, st := range p.StoresTo(tickF) {
			if st.Fn == fn && !st.Whole && strings.Contains(ffi.Sym(st.Val).Key(), tick) && mustPass(ffi, st.Instr) {
				ok = true
			}
		}
		c.Result(ok, "C15.K", name+" installs its tick function", fnName(fn), p.Pos(fn.Pos()), "r.tick = r."+tick, "")
	}
	// --- C15.R: election timeouts are re-randomised on every reset, in [et, 2et)
	resetRET := p.Method("raft", "raft", "resetRandomizedElectionTimeout")
	if reset != nil && resetRET != nil {
		rfi := p.Info(reset)
		ok := false
		for _, ci := range p.CallsIn(reset, resetRET) {
			if mustPass(rfi, ci) {
				ok = true
			}
		}
		c.Result(ok, "C15.R", "reset re-randomises the election timeout", fnName(reset), p.Pos(reset.Pos()), "resetRandomizedElectionTimeout() on every path", "")
		tfi := p.Info(resetRET)
		tr := tfi.Sym(resetRET.Params[0])
		retF := p.Field("raft", "raft", "randomizedElectionTimeout")
		okRange := false
		for _, st := range p.StoresTo(retF) {
			if st.Fn != resetRET || st.Whole {
				continue
			}
			v := tfi.Sym(st.Val)
			d := LinOf(v)
			et := FieldOf(tr, p.Field("raft", "raft", "electionTimeout"))
			d.add(LinOf(et), -1)
			if d.K == 0 && len(d.T) == 1 {
				for k, s := range d.S {
					if s.K == KCall && strings.HasSuffix(s.Name, "Intn") || s.K == KCall && s.Fn != nil && s.Fn.Name() == "Intn" {
						if d.T[k] == 1 && len(s.Args) == 2 && s.Args[1].Key() == et.Key() {
							okRange = true
						}
					}
				}
			}
		}
		c.Result(okRange, "C15.R", "randomised timeout range", fnName(resetRET), p.Pos(resetRET.Pos()), "electionTimeout + Intn(electionTimeout): in [et, 2et)", "")
	}
	// --- C15.P: postponed reads are released after the first own-term commit
	release := p.Func("raft", "releasePendingReadIndexMessages")
	maybeCommit := p.Method("raft", "raft", "maybeCommit")
	if release != nil && maybeCommit != nil {
		ok := false
		for _, ci := range p.CallsIn(stepLeader, release) {
			f := fi.FactsAt(ci)
			tested := &Facts{FI: fi, Atoms: f.Tested}
			if tested.HasBool(isCallTo(maybeCommit), true) != nil {
				ok = true
			}
		}
		c.Result(ok, "C15.P", "pending reads are released on commit advance", fnName(stepLeader), p.Pos(stepLeader.Pos()), "maybeCommit() true -> releasePendingReadIndexMessages", "")
	}
}

// skipImplies: every path from the immediate dominator of call's block to the
// first block after it that avoids the call entails spec.
func skipImplies(fi *FuncInfo, call ssa.Instruction, spec *BF) bool {
	cb := call.Block().Index
	start := fi.Idom[cb]
	if start < 0 {
		return false
	}
	// walk to the nearest dominator that ends in an If
	for start >= 0 {
		b := fi.Fn.Blocks[start]
		if _, ok := b.Instrs[len(b.Instrs)-1].(*ssa.If); ok {
			break
		}
		start = fi.Idom[start]
	}
	if start < 0 {
		return false
	}
	// the join: first block reachable from cb that is also reachable from start avoiding cb
	avoid := fi.ReachableFrom([]int{start}, func(b int) bool { return b == cb })
	fromCall := fi.ReachableFrom(fi.Succs[cb], nil)
	join := -1
	for _, b := range fi.order {
		if b != cb && avoid[b] && fromCall[b] && b != start {
			join = b
			break
		}
	}
	if join < 0 {
		return false
	}
	// enumerate outcome sets on paths start -> join avoiding cb
	type st struct{ fs []*BF }
	var paths [][]*BF
	var walk func(b int, conj []*BF, seen map[int]bool)
	walk = func(b int, conj []*BF, seen map[int]bool) {
		if b == join {
			paths = append(paths, conj)
			return
		}
		if b == cb || len(paths) > 256 {
			return
		}
		bb := fi.Fn.Blocks[b]
		for si, s := range fi.Succs[b] {
			if seen[s] {
				continue
			}
			cj := conj
			if iff, ok := bb.Instrs[len(bb.Instrs)-1].(*ssa.If); ok && len(bb.Succs) == 2 {
				f := fi.valueBF(iff.Cond, 0)
				if si == 1 {
					f = bfNot(f)
				}
				cj = append(append([]*BF{}, conj...), f)
			}
			seen[s] = true
			walk(s, cj, seen)
			delete(seen, s)
		}
	}
	walk(start, nil, map[int]bool{start: true})
	if len(paths) == 0 {
		return false
	}
	for _, pth := range paths {
		if ok, _ := bfImplies(bfAnd(pth...), spec); !ok {
			return false
		}
	}
	return true
}

// storesOnEveryPath: every returning path of fn passes through a block that stores field f.
func storesOnEveryPath(p *Prog, fn *ssa.Function, f *types.Var) bool {
	fi := p.Info(fn)
	blocks := map[int]bool{}
	for _, st := range p.StoresTo(f) {
		if st.Fn == fn && !st.Whole && fi.Live(st.Instr) {
			blocks[st.Instr.Block().Index] = true
		}
	}
	if len(blocks) == 0 {
		return false
	}
	seen := fi.ReachableFrom([]int{0}, func(b int) bool { return blocks[b] })
	for b := range seen {
		if blocks[b] || fi.Cut[b] >= 0 {
			continue
		}
		ins := fi.Fn.Blocks[b].Instrs
		if _, isRet := ins[len(ins)-1].(*ssa.Return); isRet {
			return false
		}
	}
	return true
}
