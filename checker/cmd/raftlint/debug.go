package main

import (
	"fmt"
	"os"
	"strings"
	"time"

	"golang.org/x/tools/go/ssa"
)

// dumpFacts prints, for every store and call in matching functions, the
// symbolic operands and the guard facts. Development aid (-dump).
func dumpFacts(p *Prog, pat string) {
	for _, fn := range p.Funcs {
		if !strings.Contains(fnName(fn), pat) {
			continue
		}
		fi := p.Info(fn)
		fmt.Printf("=== %s  (pure=%v)\n", fnName(fn), p.IsPure(fn))
		for _, b := range fn.Blocks {
			if !fi.Reach[b.Index] {
				fmt.Printf(" block %d unreachable\n", b.Index)
				continue
			}
			fmt.Printf(" block %d cut=%d idom=%d succs=%v\n", b.Index, fi.Cut[b.Index], fi.Idom[b.Index], fi.Succs[b.Index])
			for _, in := range fi.liveInstrs(b.Index) {
				switch x := in.(type) {
				case *ssa.Store:
					fmt.Printf("   %s: STORE %s <- %s\n", p.InstrPos(in), fi.Sym(x.Addr), fi.Sym(x.Val))
					for _, d := range fi.FactsAt(in).Describe() {
						fmt.Printf("        fact %s\n", d)
					}
					for _, d := range fi.FactsAt(in).Dropped {
						fmt.Printf("        dropped %s\n", d)
					}
				case *ssa.Call:
					fmt.Printf("   %s: CALL %s\n", p.InstrPos(in), fi.Sym(x))
					for _, d := range fi.FactsAt(in).Describe() {
						fmt.Printf("        fact %s\n", d)
					}
					for _, d := range fi.FactsAt(in).Dropped {
						fmt.Printf("        dropped %s\n", d)
					}
				case *ssa.Return:
					var rs []string
					for _, r := range x.Results {
						rs = append(rs, fi.Sym(r).Key())
					}
					fmt.Printf("   %s: RETURN %s\n", p.InstrPos(in), strings.Join(rs, ", "))
					for _, d := range fi.FactsAt(in).Describe() {
						fmt.Printf("        fact %s\n", d)
					}
				case *ssa.If:
					fmt.Printf("   IF %s\n", fi.Sym(x.Cond))
				}
			}
		}
	}
}

func dumpEffects(p *Prog, pat string) {
	for _, fn := range p.Funcs {
		if !strings.Contains(fnName(fn), pat) {
			continue
		}
		e := p.Effects(fn)
		fmt.Printf("=== %s other=%v\n", fnName(fn), e.Other)
		for l := range e.Writes {
			fmt.Printf("   W %v\n", l)
		}
		// which callee contributes
		if node := p.CG.Nodes[fn]; node != nil {
			for _, out := range node.Out {
				ce := p.Effects(out.Callee.Func)
				if len(ce.Writes) > 0 || ce.Other {
					fmt.Printf("   via %s (%d writes, other=%v) at %s\n", fnName(out.Callee.Func), len(ce.Writes), ce.Other, p.InstrPos(out.Site))
				}
			}
		}
	}
}

func timing(name string) func() {
	if os.Getenv("RAFTLINT_TIMING") == "" {
		return func() {}
	}
	t0 := time.Now()
	return func() { fmt.Fprintf(os.Stderr, "  %s: %.2fs\n", name, time.Since(t0).Seconds()) }
}

func dumpConds(p *Prog, pat string) {
	for _, fn := range p.Funcs {
		if !strings.Contains(fnName(fn), pat) {
			continue
		}
		fi := p.Info(fn)
		for _, b := range fn.Blocks {
			if !fi.Reach[b.Index] {
				continue
			}
			if iff, ok := b.Instrs[len(b.Instrs)-1].(*ssa.If); ok {
				fmt.Printf("block %d: IF %s\n    BF: %s\n", b.Index, fi.Sym(iff.Cond), fi.valueBF(iff.Cond, 0))
			}
		}
	}
}
