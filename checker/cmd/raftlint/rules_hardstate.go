package main

import (
	"fmt"
	"go/types"
	"strings"

	"golang.org/x/tools/go/ssa"
)

// setterParam describes a function one of whose parameters flows (possibly
// through other setters) into a store of `field`.
type setterParam struct {
	fn  *ssa.Function
	idx int
}

// fieldSetters discovers the functions whose parameter is stored into field f
// directly or by being passed on to another setter.
func fieldSetters(p *Prog, f *types.Var) map[*ssa.Function]int {
	out := map[*ssa.Function]int{}
	for _, st := range p.StoresTo(f) {
		if st.Whole || st.Fresh {
			continue
		}
		if prm, ok := st.Val.(*ssa.Parameter); ok {
			for i, q := range st.Fn.Params {
				if q == prm {
					out[st.Fn] = i
				}
			}
		}
	}
	for changed := true; changed; {
		changed = false
		for fn, idx := range out {
			for _, cs := range p.CallsTo(fn) {
				args := callArgs(cs.Instr)
				if idx >= len(args) {
					continue
				}
				if prm, ok := args[idx].(*ssa.Parameter); ok {
					for i, q := range cs.Caller.Params {
						if q == prm {
							if _, have := out[cs.Caller]; !have {
								out[cs.Caller] = i
								changed = true
							}
						}
					}
				}
			}
		}
	}
	return out
}

// C07 — HardState monotone.
// gTermGate — C07.L/C07.G: Step's three-way term gate. A message of a lower (non-zero) term is
// confined to the lower-term arm, and that arm changes nothing and dispatches nothing.
func gTermGate(c *Check) {
	p := c.P
	termF := p.Field("raft", "raft", "Term")
	voteF := p.Field("raft", "raft", "Vote")
	committedF := p.Field("raft", "raftLog", "committed")
	step := p.Method("raft", "raft", "Step")
	getTerm := p.Method("raftpb", "Message", "GetTerm")
	if termF == nil || step == nil || getTerm == nil {
		return
	}
	// C07.L: the lower-term arm of Step does nothing that acts in the stale term
	sfi := p.Info(step)
	r := sfi.Sym(step.Params[0])
	m := sfi.Sym(step.Params[1])
	lowArm := findArm(sfi, func(a *Atom) bool {
		if a.K != ALe {
			return false
		}
		want := newLin()
		linAdd(want, CallSym(getTerm, m), 1)
		linAdd(want, FieldOf(r, termF), -1)
		want.K = 1
		return linEqual(a.L, want)
	})
	if lowArm < 0 {
		c.Bad("C07.L", "lower-term arm of Step", fnName(step), p.Pos(step.Pos()), "Step has an arm for m.Term < r.Term", "not found")
	} else {
		reach := sfi.ReachableFrom([]int{lowArm}, nil)
		appliedSnap := p.Method("raft", "raft", "appliedSnap")
		sendFn := p.Method("raft", "raft", "send")
		forbidden := []*ssa.Function{
			p.Method("raft", "raft", "reset"), p.Method("raft", "raftLog", "stableTo"), p.Method("raft", "raftLog", "append"),
			p.Method("raft", "raftLog", "commitTo"), p.Method("raft", "raft", "hup"), p.Method("raft", "raft", "campaign"),
			p.Method("tracker", "Progress", "MaybeUpdate"),
		}
		var bad []string
		nCalls := 0
		for b := range reach {
			for _, in := range sfi.liveInstrs(b) {
				switch x := in.(type) {
				case *ssa.Store:
					if fa, ok := x.Addr.(*ssa.FieldAddr); ok {
						if f := derefStruct(fa.X.Type()).Field(fa.Field); f == termF || f == voteF || f == committedF {
							if _, fresh := rootOfAddr(fa).(*ssa.Alloc); !fresh {
								bad = append(bad, fmt.Sprintf("store to %s at %s", f.Name(), p.site(in)))
							}
						}
					}
				case ssa.CallInstruction:
					nCalls++
					if callee := x.Common().StaticCallee(); callee != nil && (callee == appliedSnap || callee == sendFn) {
						continue // enumerated: acknowledging a persisted snapshot, replying
					}
					if x.Common().StaticCallee() == nil && !x.Common().IsInvoke() {
						if _, isB := x.Common().Value.(*ssa.Builtin); !isB {
							bad = append(bad, "dynamic step dispatch at "+p.site(in))
						}
					}
					for _, fb := range forbidden {
						if fb != nil && p.CallReaches(x, fb) {
							bad = append(bad, fmt.Sprintf("call reaching %s at %s", fb.Name(), p.site(in)))
						}
					}
				}
			}
		}
		// C07.G: nothing outside that arm runs for a message of a lower (non-zero) term: the
		// three-way gate sends every such message into the lower-term arm
		lt := bfCmp(CallSym(getTerm, m), "<", FieldOf(r, termF))
		spec := bfOr(bfCmp(CallSym(getTerm, m), "==", constSym(0)), bfNot(lt))
		nGate := 0
		for _, b := range step.Blocks {
			if reach[b.Index] || !sfi.Reach[b.Index] {
				continue
			}
			for _, in := range sfi.liveInstrs(b.Index) {
				ci, ok := in.(ssa.CallInstruction)
				if !ok {
					continue
				}
				dyn := ci.Common().StaticCallee() == nil && !ci.Common().IsInvoke()
				if _, isB := ci.Common().Value.(*ssa.Builtin); isB {
					continue
				}
				acts := dyn
				if !acts {
					for l := range p.CallWrites(ci) {
						if f, isF := l.(*types.Var); isF && !p.isStatsField(f) {
							acts = true
						}
					}
				}
				if !acts {
					continue
				}
				nGate++
				ok2, und, detail := sfi.pathsImplyOpt(in, -1, spec, true)
				if und {
					c.Undecided("C07.G", "effect behind the term gate: "+sanitizeKey(sfi.Sym(valueOfCall(ci)).Key()), fnName(step), p.site(in), "m.Term == 0 || !(m.Term < r.Term) on every path", detail)
				} else {
					c.Result(ok2, "C07.G", "effect behind the term gate: "+sanitizeKey(sfi.Sym(valueOfCall(ci)).Key()), fnName(step), p.site(in), "m.Term == 0 || !(m.Term < r.Term) on every path (a message of a lower term reaches only the lower-term arm)", detail)
				}
			}
		}
		c.Result(nGate > 0, "C07.G", "effects behind the term gate", fnName(step), p.Pos(step.Pos()), "Step has state-changing calls behind the gate", fmt.Sprint(nGate))
		c.Result(len(bad) == 0, "C07.L", "lower-term arm of Step is isolated", fnName(step), p.Pos(step.Pos()), "a message from a lower term never changes term/vote/commit/log, is never dispatched, never acknowledges writes", fmt.Sprintf("%d blocks, %d calls; %s", len(reach), nCalls, strings.Join(bad, "; ")))
	}
}

func c07HardState(c *Check) {
	p := c.P
	termF := p.Field("raft", "raft", "Term")
	voteF := p.Field("raft", "raft", "Vote")
	committedF := p.Field("raft", "raftLog", "committed")
	raftLogF := p.Field("raft", "raft", "raftLog")
	step := p.Method("raft", "raft", "Step")
	loadState := p.Method("raft", "raft", "loadState")
	_ = p.Method("raftpb", "Message", "GetTerm")
	hsGetTerm := p.Method("raftpb", "HardState", "GetTerm")
	if termF == nil || step == nil {
		return
	}
	// C07.T: stores to raft.Term and the arguments that reach them
	setters := fieldSetters(p, termF)
	for _, st := range p.StoresTo(termF) {
		if st.Fresh || st.Whole {
			continue
		}
		fi := p.Info(st.Fn)
		v := fi.Sym(st.Val)
		site := p.site(st.Instr)
		if _, isSetter := setters[st.Fn]; isSetter {
			c.Ok("C07.T", "store raft.Term from a parameter", fnName(st.Fn), site, "value is a parameter; checked at every call site that supplies it", v.Key())
			continue
		}
		if st.Fn == loadState && v.K == KCall && v.Fn == hsGetTerm {
			ok := true
			for _, cs := range p.CallsTo(loadState) {
				if cs.Caller != p.Func("raft", "newRaft") {
					ok = false
				}
			}
			c.Result(ok, "C07.R", "store raft.Term = state.GetTerm()", fnName(st.Fn), site, "term is reloaded from the persisted HardState only at start-up", "")
			loadStateComplete(c, "C07.R")
			continue
		}
		base := storeBase(fi, st)
		pr := p.Prove(fi, st.Instr, []Req{ReqCmp(v, ">=", FieldOf(base, termF))})
		c.Result(pr.OK, "C07.T", "store raft.Term", fnName(st.Fn), site, "new term >= old term", describeProof(pr), pr.Chain...)
	}
	for fn, idx := range setters {
		for _, cs := range p.CallsTo(fn) {
			args := callArgs(cs.Instr)
			if idx >= len(args) {
				continue
			}
			if _, pass := setters[cs.Caller]; pass {
				if prm, ok := args[idx].(*ssa.Parameter); ok && cs.Caller.Params[setters[cs.Caller]] == prm {
					continue // pass-through, checked at the caller's call sites
				}
			}
			cfi := p.Info(cs.Caller)
			if !cfi.Live(cs.Instr) {
				continue
			}
			arg := cfi.Sym(args[idx])
			recv := cfi.Sym(args[0])
			construct := fmt.Sprintf("term argument of %s: %s", fn.Name(), sanitizeKey(arg.Key()))
			pr := p.Prove(cfi, cs.Instr, []Req{ReqCmp(arg, ">=", FieldOf(recv, termF))})
			c.Result(pr.OK, "C07.T", construct, fnName(cs.Caller), p.site(cs.Instr), "term passed to a state transition is >= the current term", describeProof(pr), pr.Chain...)
		}
	}
	gTermGate(c)
	// C07.H: emission of HardState
	rdHS := p.Field("raft", "Ready", "HardState")
	prevHS := p.Field("raft", "RawNode", "prevHardSt")
	hardState := p.Method("raft", "raft", "hardState")
	isEq := p.Func("raft", "isHardStateEqual")
	isEmpty := p.Func("raft", "IsEmptyHardState")
	for _, st := range p.StoresTo(rdHS) {
		if st.Whole {
			continue
		}
		fi := p.Info(st.Fn)
		v := fi.Sym(st.Val)
		if v.K == KNil {
			continue
		}
		okV := v.K == KCall && v.Fn == hardState
		f := fi.FactsAt(st.Instr)
		okG := f.HasBool(func(s *Sym) bool {
			return s.K == KCall && s.Fn == isEq && len(s.Args) == 2 && s.Args[0].Key() == v.Key() && s.Args[1].K == KField && s.Args[1].Fld == prevHS
		}, false) != nil
		c.Result(okV && okG, "C07.H", "store Ready.HardState", fnName(st.Fn), p.site(st.Instr), "rd.HardState <- r.hardState() only when it differs from prevHardSt", fmt.Sprintf("%s under {%s}", v, strings.Join(f.Describe(), "; ")))
	}
	for _, st := range p.StoresTo(prevHS) {
		if st.Whole {
			continue
		}
		fi := p.Info(st.Fn)
		v := fi.Sym(st.Val)
		site := p.site(st.Instr)
		switch {
		case v.K == KField && v.Fld == rdHS:
			f := fi.FactsAt(st.Instr)
			okG := f.HasBool(func(s *Sym) bool { return s.K == KCall && s.Fn == isEmpty && s.Args[0].Key() == v.Key() }, false) != nil
			c.Result(okG, "C07.H", "store RawNode.prevHardSt", fnName(st.Fn), site, "prevHardSt <- the accepted rd.HardState when non-empty", strings.Join(f.Describe(), "; "))
		case v.K == KCall && v.Fn == hardState:
			c.Ok("C07.H", "store RawNode.prevHardSt (initial)", fnName(st.Fn), site, "initialised from r.hardState()", v.Key())
		case st.Fn == p.Method("raft", "RawNode", "Bootstrap"):
			c.Ok("C07.H", "store RawNode.prevHardSt (bootstrap)", fnName(st.Fn), site, "reset to the empty state on an empty Storage", v.Key())
		default:
			c.Bad("C07.H", "store RawNode.prevHardSt", fnName(st.Fn), site, "prevHardSt tracks the last accepted HardState", v.Key())
		}
	}
	if hardState != nil {
		hsT := p.Type("raftpb", "HardState")
		n := 0
		for _, lit := range p.Lits(hsT) {
			if lit.Fn != hardState {
				continue
			}
			n++
			hfi := p.Info(hardState)
			rr := hfi.Sym(hardState.Params[0])
			t, v, cm := lit.FieldSym(p, "Term"), lit.FieldSym(p, "Vote"), lit.FieldSym(p, "Commit")
			ok := t != nil && t.Key() == FieldOf(rr, termF).Key() && v != nil && v.Key() == FieldOf(rr, voteF).Key() &&
				cm != nil && cm.Key() == FieldOf(FieldOf(rr, raftLogF), committedF).Key()
			c.Result(ok, "C07.H", "hardState() literal", fnName(hardState), p.site(lit.Alloc), "HardState{Term: r.Term, Vote: r.Vote, Commit: r.raftLog.committed}", fmt.Sprintf("%v %v %v", t, v, cm))
		}
		c.Result(n == 1, "C07.H", "hardState() builds one literal", fnName(hardState), p.Pos(hardState.Pos()), "one HardState literal", fmt.Sprint(n))
	}
	// C07.S: sender side: messages carry the sender's term
	send, mprm := sendRole(c, "G-ROUTE")
	if send != nil {
		fi := p.Info(send)
		mTerm := p.Field("raftpb", "Message", "Term")
		n := 0
		for _, st := range p.StoresTo(mTerm) {
			if st.Fn != send || st.Whole {
				continue
			}
			n++
			v := fi.PointeeOf(st.Val)
			rs := fi.Sym(send.Params[0])
			c.Result(v.Key() == FieldOf(rs, termF).Key(), "C07.S", "send stamps Message.Term", fnName(send), p.site(st.Instr), "Term <- r.Term", v.Key())
		}
		_ = mprm
		c.Result(n >= 1, "C07.S", "send stamps the term", fnName(send), p.Pos(send.Pos()), "at least one Term stamp in send", fmt.Sprint(n))
	}
}
