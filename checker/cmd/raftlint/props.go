package main

func init() {
	register(&PropertyRule{ID: "C06", Explain: "structural necessary conditions of C06 (commit is quorum-backed, current-term, within the log): see DESIGN.md §5 C06", Run: func(c *Check) {
		g(c, "gCommitMono", gCommitMono)
		g(c, "gCommitBound", gCommitBound)
		g(c, "gCommitLeader", gCommitLeader)
		g(c, "gMatchAck", gMatchAck)
		g(c, "c06Follower", c06Follower)
		g(c, "gQuorumJoint", gQuorumJoint)
		g(c, "gRoute", gRoute)
		g(c, "cSnapClear", cSnapClear) // a pending snapshot dropped unwritten leaves commit beyond the log
		g(c, "sliceRules", sliceRules) // an append message carries a contiguous slice: acknowledgements mean what the leader thinks
		c.OnlyRules = map[string]bool{"C05.E": true}
		g(c, "c05Extras", c05Extras)
		c.OnlyRules = nil
	}})
	register(&PropertyRule{ID: "C02", Explain: "structural necessary conditions of C02 (election safety): see DESIGN.md §5 C02", Run: func(c *Check) {
		g(c, "gVote", gVote)
		g(c, "gTermGate", gTermGate)
		g(c, "c05MustSync", c05MustSync) // what is promised must be flagged for a synchronous write
		g(c, "gElect", gElect)
		g(c, "gQuorumJoint", gQuorumJoint)
		g(c, "c10Hup", c10Hup)
		g(c, "c10Gate", c10Gate) // one configuration change at a time: electorates of consecutive configurations overlap
		g(c, "gRoute", gRoute)   // a granted vote leaves the node only behind the write that records it
	}})
	register(&PropertyRule{ID: "C12", Explain: "structural necessary conditions of C12 (quorum arithmetic): see DESIGN.md §5 C12", Run: func(c *Check) {
		g(c, "c12Quorum", c12Quorum)
		g(c, "gQuorumJoint", gQuorumJoint)
	}})
	register(&PropertyRule{ID: "C05", Explain: "structural necessary conditions of C05 (promises durable before visible): see DESIGN.md §5 C05", Run: func(c *Check) {
		g(c, "gRoute", gRoute)
		g(c, "c05Extras", c05Extras)
		g(c, "gMatchAck", gMatchAck)
		g(c, "nodeLoop", nodeLoop)
		// what is handed to the application in async mode is durable, and what was handed to the
		// storage thread is not rewritten under it
		c.OnlyRules = map[string]bool{"C08.A": true, "C18.A": true}
		g(c, "gApply", gApply)
		g(c, "c18Storage", c18Storage)
		c.OnlyRules = nil
	}})
	register(&PropertyRule{ID: "C08", Explain: "structural necessary conditions of C08 (apply stream): see DESIGN.md §5 C08", Run: func(c *Check) {
		g(c, "gApply", gApply)
		g(c, "sliceRules", sliceRules)
		g(c, "nodeLoop", nodeLoop)
		// a snapshot is part of the apply stream: it is installed only above commit (hence above the
		// apply cursor), and commit never falls back below what was delivered
		c.SkipRules = map[string]bool{"C09.C": true}
		g(c, "c09Install", c09Install)
		c.SkipRules = nil
		g(c, "gCommitMono", gCommitMono)
	}})
	register(&PropertyRule{ID: "C19", Explain: "structural conditions of C19 (determinism): all nondeterminism sources, map iterations and globals in code reachable from the API; see DESIGN.md §5 C19", Run: func(c *Check) {
		g(c, "c19Determinism", c19Determinism)
	}})
	register(&PropertyRule{ID: "C07", Explain: "structural necessary conditions of C07 (HardState monotone): see DESIGN.md §5 C07", Run: func(c *Check) {
		g(c, "gCommitMono", gCommitMono)
		g(c, "c05MustSync", c05MustSync) // what is promised must be flagged for a synchronous write
		g(c, "gVote", gVote)
		g(c, "c07HardState", c07HardState)
	}})
	register(&PropertyRule{ID: "C09", Explain: "structural necessary conditions of C09 (snapshot install): see DESIGN.md §5 C09", Run: func(c *Check) {
		g(c, "c09Snapshot", c09Snapshot)
		g(c, "cSnapClear", cSnapClear)
		g(c, "cStorageSnapshot", cStorageSnapshot)
		g(c, "gTrunc", gTrunc)
		g(c, "gCommitMono", gCommitMono)
		g(c, "c06Follower", c06Follower)
		g(c, "c05Extras", c05Extras)
		c.OnlyRules = map[string]bool{"C15.N": true}
		g(c, "c15Recovery", c15Recovery) // a persisted snapshot is acknowledged across a term change
		c.OnlyRules = nil
	}})
	register(&PropertyRule{ID: "C10", Explain: "structural necessary conditions of C10 (membership changes): see DESIGN.md §5 C10", Run: func(c *Check) {
		g(c, "c10ConfChange", c10ConfChange)
		g(c, "gQuorumJoint", gQuorumJoint)
	}})
	register(&PropertyRule{ID: "C01", Explain: "node-local structural necessary conditions of C01 (state-machine safety): see DESIGN.md §5 C01", Run: func(c *Check) {
		g(c, "gTrunc", gTrunc)
		g(c, "gTermGate", gTermGate)
		g(c, "c05MustSync", c05MustSync) // what is promised must be flagged for a synchronous write
		g(c, "gCommitMono", gCommitMono)
		g(c, "gApply", gApply)
		g(c, "sliceRules", sliceRules)
		g(c, "gCommitLeader", gCommitLeader)
		g(c, "c06Follower", c06Follower)
		// cluster-level agreement additionally rests on every node-local safety mechanism:
		g(c, "gVote", gVote)
		g(c, "gElect", gElect)
		g(c, "gQuorumJoint", gQuorumJoint)
		g(c, "gAppendMatch", gAppendMatch)
		g(c, "gStamp", gStamp)
		g(c, "gStable", gStable)
		g(c, "gMatchAck", gMatchAck)
		g(c, "gRoute", gRoute)
		g(c, "c10Gate", c10Gate)
		g(c, "c10Hup", c10Hup)
	}})
	register(&PropertyRule{ID: "C04", Explain: "structural necessary conditions of C04 (leader completeness): see DESIGN.md §5 C04", Run: func(c *Check) {
		g(c, "gVote", gVote)
		g(c, "gTermGate", gTermGate)
		g(c, "gCommitLeader", gCommitLeader)
		g(c, "c06Follower", c06Follower)
		g(c, "gQuorumJoint", gQuorumJoint)
		g(c, "c04Noop", c04Noop)
		g(c, "gAppendMatch", gAppendMatch)
		g(c, "gStamp", gStamp)
		g(c, "gElect", gElect)
		g(c, "gMatchAck", gMatchAck)
		g(c, "c10Gate", c10Gate)
		g(c, "c10Hup", c10Hup)
		g(c, "gCommitMono", gCommitMono) // what was committed (and acknowledged) is not rolled back
		c.OnlyRules = map[string]bool{"C09.G": true}
		g(c, "c09Install", c09Install)
		c.OnlyRules = nil
	}})
	register(&PropertyRule{ID: "C11", Explain: "structural necessary conditions of C11 (ReadIndex, ReadOnlySafe): see DESIGN.md §5 C11", Run: func(c *Check) {
		g(c, "c11ReadIndex", c11ReadIndex)
		g(c, "gQuorumJoint", gQuorumJoint)
	}})
	register(&PropertyRule{ID: "C17", Explain: "structural necessary conditions of C17 (PreVote / CheckQuorum): see DESIGN.md §5 C17", Run: func(c *Check) {
		g(c, "c17Disruption", c17Disruption)
		g(c, "gTermGate", gTermGate)
		g(c, "gElect", gElect)
	}})
	register(&PropertyRule{ID: "C16", Explain: "structural necessary conditions of C16 (flow control and size limits): see DESIGN.md §5 C16", Run: func(c *Check) {
		g(c, "c16FlowControl", c16FlowControl)
	}})
	register(&PropertyRule{ID: "C20", Explain: "structural necessary conditions of C20 (proposal integrity): see DESIGN.md §5 C20", Run: func(c *Check) {
		g(c, "c20Proposals", c20Proposals)
		g(c, "sliceRules", sliceRules)     // what is replicated is a contiguous slice of the log: nothing skipped, nothing twice
		g(c, "c10AutoLeave", c10AutoLeave) // the only proposal raft makes on its own, once per joint configuration
		g(c, "c04Noop", c04Noop)
		g(c, "gStamp", gStamp)
		g(c, "c10Gate", c10Gate)
		// entries handed out (messages, Ready) are never rewritten in place by the storage or the unstable log
		c.OnlyRules = map[string]bool{"C18.A": true}
		g(c, "c18Storage", c18Storage)
		c.OnlyRules = nil
	}})
	register(&PropertyRule{ID: "C13", Explain: "structural necessary conditions of C13 (configuration algebra): see DESIGN.md §5 C13", Run: func(c *Check) {
		g(c, "c13ConfAlgebra", c13ConfAlgebra)
		// Restore's precondition at its raft call site: the snapshot's configuration is replayed on an empty tracker
		c.OnlyRules = map[string]bool{"C09.C": true}
		g(c, "c09Install", c09Install)
		c.OnlyRules = nil
	}})
	register(&PropertyRule{ID: "C14", Explain: "C14 (no internal assertion fires): panic-site ledger and the statically discharged sites only; see DESIGN.md §5 C14", Run: func(c *Check) {
		g(c, "c14Panics", c14Panics)
		// preconditions of assertions/bounds that other groups already decide: the campaign gate (a node
		// never leads a configuration it has not applied; the scan stays inside the log) and the
		// read-only queue's slice bounds
		g(c, "c10Hup", c10Hup)
		c.OnlyRules = map[string]bool{"C11.M": true}
		g(c, "c11ReadIndex", c11ReadIndex)
		c.OnlyRules = nil
		g(c, "cSnapClear", cSnapClear) // a pending snapshot dropped unwritten leaves commit beyond the log: the next Ready asserts
		c.OnlyRules = map[string]bool{"C16.I": true}
		g(c, "c16FlowControl", c16FlowControl) // Inflights.Add asserts room: entries are fetched only when the window has room
		c.OnlyRules = nil
	}})
	register(&PropertyRule{ID: "C15", Explain: "C15 (convergence): existence of each recovery edge only; see DESIGN.md §5 C15", Run: func(c *Check) {
		g(c, "c15Recovery", c15Recovery)
		g(c, "c10AutoLeave", c10AutoLeave)
		g(c, "c15AutoLeaveRetried", c15AutoLeaveRetried)
		g(c, "c10Hup", c10Hup) // a campaign is refused only for a committed, unapplied configuration change
	}})
	register(&PropertyRule{ID: "C03", Explain: "structural necessary conditions of C03 (log matching): see DESIGN.md §5 C03", Run: func(c *Check) {
		g(c, "gTrunc", gTrunc)
		g(c, "gStable", gStable)
		g(c, "gAppendMatch", gAppendMatch)
		g(c, "gStamp", gStamp)
		g(c, "c03Unstable", c03Unstable)
		g(c, "cStorageSnapshot", cStorageSnapshot)
		g(c, "sliceRules", sliceRules)
		// entries handed out (messages, Ready) are never rewritten in place by the storage or the unstable log
		c.OnlyRules = map[string]bool{"C18.A": true}
		g(c, "c18Storage", c18Storage)
		c.OnlyRules = nil
		// one leader per term is a premise of log matching (one entry per (index, term))
		g(c, "gElect", gElect)
		g(c, "gQuorumJoint", gQuorumJoint)
	}})
	register(&PropertyRule{ID: "C18", Explain: "structural necessary conditions of C18 (log storage views): see DESIGN.md §5 C18", Run: func(c *Check) {
		g(c, "c18Storage", c18Storage)
		g(c, "cSnapClear", cSnapClear) // the pending snapshot is part of the combined view
		g(c, "cStorageSnapshot", cStorageSnapshot)
		g(c, "gStable", gStable)
		g(c, "sliceRules", sliceRules)
	}})
}

// sliceRules: the combined stable+unstable range query (size limiting, no gap
// between the parts, non-empty prefix).
func sliceRules(c *Check) {
	p := c.P
	lslice, limit, ext, es := p.Method("raft", "raftLog", "slice"), p.Func("raft", "limitSize"), p.Func("raft", "extend"), p.Func("raft", "entsSize")
	if lslice == nil || limit == nil || ext == nil || es == nil {
		return
	}
	c16Slice(c, lslice, limit, ext, es)
	c16LimitSize(c, limit)
}
