package main

func init() {
	register(&PropertyRule{ID: "C06", Explain: "structural necessary conditions of C06 (commit is quorum-backed, current-term, within the log): see DESIGN.md §5 C06", Run: func(c *Check) {
		gCommitMono(c)
		gCommitBound(c)
		gCommitLeader(c)
		gMatchAck(c)
		c06Follower(c)
		gQuorumJoint(c)
		gRoute(c)
	}})
	register(&PropertyRule{ID: "C02", Explain: "structural necessary conditions of C02 (election safety): see DESIGN.md §5 C02", Run: func(c *Check) {
		gVote(c)
		gTermGate(c)
		c05MustSync(c) // what is promised must be flagged for a synchronous write
		gElect(c)
		gQuorumJoint(c)
		c10Hup(c)
	}})
	register(&PropertyRule{ID: "C12", Explain: "structural necessary conditions of C12 (quorum arithmetic): see DESIGN.md §5 C12", Run: func(c *Check) {
		c12Quorum(c)
		gQuorumJoint(c)
	}})
	register(&PropertyRule{ID: "C05", Explain: "structural necessary conditions of C05 (promises durable before visible): see DESIGN.md §5 C05", Run: func(c *Check) {
		gRoute(c)
		c05Extras(c)
		gMatchAck(c)
		nodeLoop(c)
	}})
	register(&PropertyRule{ID: "C08", Explain: "structural necessary conditions of C08 (apply stream): see DESIGN.md §5 C08", Run: func(c *Check) {
		gApply(c)
		sliceRules(c)
		nodeLoop(c)
		// a snapshot is part of the apply stream: it is installed only above commit (hence above the
		// apply cursor), and commit never falls back below what was delivered
		c.SkipRules = map[string]bool{"C09.C": true}
		c09Install(c)
		c.SkipRules = nil
		gCommitMono(c)
	}})
	register(&PropertyRule{ID: "C19", Explain: "structural conditions of C19 (determinism): all nondeterminism sources, map iterations and globals in code reachable from the API; see DESIGN.md §5 C19", Run: func(c *Check) {
		c19Determinism(c)
	}})
	register(&PropertyRule{ID: "C07", Explain: "structural necessary conditions of C07 (HardState monotone): see DESIGN.md §5 C07", Run: func(c *Check) {
		gCommitMono(c)
		c05MustSync(c) // what is promised must be flagged for a synchronous write
		gVote(c)
		c07HardState(c)
	}})
	register(&PropertyRule{ID: "C09", Explain: "structural necessary conditions of C09 (snapshot install): see DESIGN.md §5 C09", Run: func(c *Check) {
		c09Snapshot(c)
		cSnapClear(c)
		cStorageSnapshot(c)
		gTrunc(c)
		gCommitMono(c)
		c06Follower(c)
		c05Extras(c)
	}})
	register(&PropertyRule{ID: "C10", Explain: "structural necessary conditions of C10 (membership changes): see DESIGN.md §5 C10", Run: func(c *Check) {
		c10ConfChange(c)
		gQuorumJoint(c)
	}})
	register(&PropertyRule{ID: "C01", Explain: "node-local structural necessary conditions of C01 (state-machine safety): see DESIGN.md §5 C01", Run: func(c *Check) {
		gTrunc(c)
		gTermGate(c)
		c05MustSync(c) // what is promised must be flagged for a synchronous write
		gCommitMono(c)
		gApply(c)
		sliceRules(c)
		gCommitLeader(c)
		c06Follower(c)
		// cluster-level agreement additionally rests on every node-local safety mechanism:
		gVote(c)
		gElect(c)
		gQuorumJoint(c)
		gAppendMatch(c)
		gStamp(c)
		gStable(c)
		gMatchAck(c)
		gRoute(c)
		c10Gate(c)
		c10Hup(c)
	}})
	register(&PropertyRule{ID: "C04", Explain: "structural necessary conditions of C04 (leader completeness): see DESIGN.md §5 C04", Run: func(c *Check) {
		gVote(c)
		gTermGate(c)
		gCommitLeader(c)
		c06Follower(c)
		gQuorumJoint(c)
		c04Noop(c)
		gAppendMatch(c)
		gStamp(c)
		gElect(c)
		gMatchAck(c)
		c10Gate(c)
		c10Hup(c)
	}})
	register(&PropertyRule{ID: "C11", Explain: "structural necessary conditions of C11 (ReadIndex, ReadOnlySafe): see DESIGN.md §5 C11", Run: func(c *Check) {
		c11ReadIndex(c)
		gQuorumJoint(c)
	}})
	register(&PropertyRule{ID: "C17", Explain: "structural necessary conditions of C17 (PreVote / CheckQuorum): see DESIGN.md §5 C17", Run: func(c *Check) {
		c17Disruption(c)
		gTermGate(c)
		gElect(c)
	}})
	register(&PropertyRule{ID: "C16", Explain: "structural necessary conditions of C16 (flow control and size limits): see DESIGN.md §5 C16", Run: func(c *Check) {
		c16FlowControl(c)
	}})
	register(&PropertyRule{ID: "C20", Explain: "structural necessary conditions of C20 (proposal integrity): see DESIGN.md §5 C20", Run: func(c *Check) {
		c20Proposals(c)
		sliceRules(c)    // what is replicated is a contiguous slice of the log: nothing skipped, nothing twice
		c10AutoLeave(c) // the only proposal raft makes on its own, once per joint configuration
		c04Noop(c)
		gStamp(c)
		c10Gate(c)
	}})
	register(&PropertyRule{ID: "C13", Explain: "structural necessary conditions of C13 (configuration algebra): see DESIGN.md §5 C13", Run: func(c *Check) {
		c13ConfAlgebra(c)
		// Restore's precondition at its raft call site: the snapshot's configuration is replayed on an empty tracker
		c.OnlyRules = map[string]bool{"C09.C": true}
		c09Install(c)
		c.OnlyRules = nil
	}})
	register(&PropertyRule{ID: "C14", Explain: "C14 (no internal assertion fires): panic-site ledger and the statically discharged sites only; see DESIGN.md §5 C14", Run: func(c *Check) {
		c14Panics(c)
		// preconditions of assertions/bounds that other groups already decide: the campaign gate (a node
		// never leads a configuration it has not applied; the scan stays inside the log) and the
		// read-only queue's slice bounds
		c10Hup(c)
		c.OnlyRules = map[string]bool{"C11.M": true}
		c11ReadIndex(c)
		c.OnlyRules = nil
	}})
	register(&PropertyRule{ID: "C15", Explain: "C15 (convergence): existence of each recovery edge only; see DESIGN.md §5 C15", Run: func(c *Check) {
		c15Recovery(c)
		c10AutoLeave(c)
		c10Hup(c) // a campaign is refused only for a committed, unapplied configuration change
	}})
	register(&PropertyRule{ID: "C03", Explain: "structural necessary conditions of C03 (log matching): see DESIGN.md §5 C03", Run: func(c *Check) {
		gTrunc(c)
		gStable(c)
		gAppendMatch(c)
		gStamp(c)
		c03Unstable(c)
		cStorageSnapshot(c)
		sliceRules(c)
	}})
	register(&PropertyRule{ID: "C18", Explain: "structural necessary conditions of C18 (log storage views): see DESIGN.md §5 C18", Run: func(c *Check) {
		c18Storage(c)
		cSnapClear(c) // the pending snapshot is part of the combined view
		cStorageSnapshot(c)
		gStable(c)
		sliceRules(c)
	}})
}

// sliceRules: the combined stable+unstable range query (size limiting, no gap
// between the parts, non-empty prefix).
func sliceRules(c *Check) {
	p := c.P
	lslice, limit, ext, es := p.Method("raft", "raftLog", "slice"), p.Func("raft", "limitSize"), p.Func("raft", "extend"), p.Func("raft", "entsSize")
	if lslice == nil || limit == nil || ext == nil || es == nil {
		return
	}
	c16Slice(c, lslice, limit, ext, es)
	c16LimitSize(c, limit)
}
