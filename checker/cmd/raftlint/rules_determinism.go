package main

import (
	"fmt"
	"go/token"
	"go/types"
	"regexp"
	"sort"
	"strings"

	"golang.org/x/tools/go/ssa"
)

// apiRoots: the entry points whose reachable code must be deterministic.
func apiRoots(p *Prog) []*ssa.Function {
	var roots []*ssa.Function
	add := func(fn *ssa.Function) {
		if fn != nil && fn.Blocks != nil {
			roots = append(roots, fn)
		}
	}
	addMethods := func(pkg, typ string) {
		n := p.Type(pkg, typ)
		if n == nil {
			return
		}
		for i := 0; i < n.NumMethods(); i++ {
			m := n.Method(i)
			if m.Exported() {
				add(p.SSA.FuncValue(m))
			}
		}
	}
	addMethods("raft", "RawNode")
	addMethods("raft", "MemoryStorage")
	add(p.Func("raft", "NewRawNode"))
	add(p.Func("raft", "NewMemoryStorage"))
	for _, sp := range []string{"confchange", "quorum", "tracker"} {
		pk := p.Pkgs[sp]
		sc := pk.Types.Scope()
		for _, name := range sc.Names() {
			switch o := sc.Lookup(name).(type) {
			case *types.Func:
				if o.Exported() {
					add(p.SSA.FuncValue(o))
				}
			case *types.TypeName:
				if n, ok := o.Type().(*types.Named); ok && o.Exported() {
					for i := 0; i < n.NumMethods(); i++ {
						if n.Method(i).Exported() {
							add(p.SSA.FuncValue(n.Method(i)))
						}
					}
				}
			}
		}
	}
	return roots
}

// reachableOurs: functions of the rule packages reachable from roots via VTA
// (closures created in a reachable function are included).
func reachableOurs(p *Prog, roots []*ssa.Function) map[*ssa.Function]bool {
	seen := map[*ssa.Function]bool{}
	var work []*ssa.Function
	push := func(f *ssa.Function) {
		if f == nil || seen[f] {
			return
		}
		pk := fnPkg(f)
		if pk == nil || !isOurPath(pk.Path()) || pk.Path() == pkgPaths["rafttest"] {
			return
		}
		seen[f] = true
		work = append(work, f)
	}
	for _, r := range roots {
		push(r)
	}
	for len(work) > 0 {
		f := work[len(work)-1]
		work = work[:len(work)-1]
		if node := p.CG.Nodes[f]; node != nil {
			for _, e := range node.Out {
				push(e.Callee.Func)
			}
		}
		for _, a := range f.AnonFuncs {
			push(a)
		}
	}
	return seen
}

var forbiddenPkgs = map[string]string{
	"time": "clock", "os": "process environment", "math/rand": "pseudo-random source", "math/rand/v2": "pseudo-random source",
	"crypto/rand": "random source", "runtime": "scheduler/runtime state", "unsafe": "unsafe", "reflect": "reflection",
}

// valueless functions of forbidden packages: blocking-only effects produce no value
var harmlessExt = map[string]bool{"time.Sleep": true, "runtime.KeepAlive": true, "time.Duration.String": true}

// C19.E — E-EFFECT
func c19Effects(c *Check, R map[*ssa.Function]bool) {
	p := c.P
	const rule = "C19.E"
	resetRET := p.Method("raft", "raft", "resetRandomizedElectionTimeout")
	var fns []*ssa.Function
	for f := range R {
		fns = append(fns, f)
	}
	sortFuncs(fns)
	nInstr := 0
	randSites := 0
	for _, fn := range fns {
		if fnPkg(fn).Path() == pkgPaths["raftpb"] {
			continue
		}
		for _, in := range p.liveInstrsOf(fn) {
			nInstr++
			site := p.site(in)
			switch x := in.(type) {
			case *ssa.Go:
				c.Bad(rule, "go statement", fnName(fn), site, "no goroutines in the deterministic core", "")
			case *ssa.Select:
				c.Bad(rule, "select statement", fnName(fn), site, "no channel selection in the deterministic core", "")
			case *ssa.Send:
				c.Bad(rule, "channel send", fnName(fn), site, "no channel operations in the deterministic core", "")
			case *ssa.MakeChan:
				c.Bad(rule, "make(chan)", fnName(fn), site, "no channel operations in the deterministic core", "")
			case *ssa.UnOp:
				if x.Op == token.ARROW {
					c.Bad(rule, "channel receive", fnName(fn), site, "no channel operations in the deterministic core", "")
				}
			case ssa.CallInstruction:
				callee := x.Common().StaticCallee()
				if callee == nil || callee.Pkg == nil {
					continue
				}
				path := callee.Pkg.Pkg.Path()
				if path == "maps" {
					// maps.Keys/Values/All iterate in map order: an order source unless consumed by a sort
					okSorted := false
					if v := x.Value(); v != nil {
						okSorted = true
						n := 0
						for _, ref := range *v.Referrers() {
							if c2, ok := ref.(*ssa.Call); ok {
								if cal := c2.Common().StaticCallee(); cal != nil && cal.Pkg != nil && cal.Pkg.Pkg.Path() == "slices" && strings.HasPrefix(cal.Name(), "Sorted") {
									n++
									continue
								}
							}
							if _, isDbg := ref.(*ssa.DebugRef); isDbg {
								continue
							}
							okSorted = false
						}
						okSorted = okSorted && n > 0
					}
					switch callee.Name() {
					case "Keys", "Values", "All", "Collect", "Insert":
						c.Result(okSorted, "C19.M", "map iterator "+callee.Name(), fnName(fn), site, "maps.Keys/Values/All are consumed only by slices.Sorted*", fnName(callee))
					}
					continue
				}
				what, bad := forbiddenPkgs[path]
				if !bad {
					if path == "sync" && strings.Contains(callee.String(), "sync.Map") {
						c.Bad(rule, "sync.Map", fnName(fn), site, "no concurrently-ordered containers", "")
					}
					continue
				}
				full := path + "." + callee.Name()
				if callee.Signature.Recv() != nil {
					full = strings.TrimPrefix(callee.String(), "(")
				}
				if harmlessExt[path+"."+callee.Name()] || callee.Signature.Results().Len() == 0 {
					continue // produces no value
				}
				if path == "crypto/rand" {
					randSites++
					// allowed only inside the one election-timeout draw
					okOwner := fn.Signature.Recv() != nil && strings.Contains(fn.Signature.Recv().Type().String(), "lockedRand")
					okCallers := okOwner
					if okOwner {
						for _, cs := range p.CallsTo(fn) {
							if cs.Caller != resetRET {
								okCallers = false
							}
						}
					}
					c.Result(okCallers, rule, "crypto/rand draw", fnName(fn), site, "the only random draw is the election timeout (lockedRand.Intn <- resetRandomizedElectionTimeout), which the property lets the harness fix", full)
					continue
				}
				c.Bad(rule, "call into "+path, fnName(fn), site, "no "+what+" value may influence outputs", full)
			}
		}
	}
	c.Ok(rule, "effect scan", "-", "-", "no go/select/channel/time/os/rand/runtime/unsafe/reflect value source in code reachable from the API", fmt.Sprintf("%d functions, %d instructions scanned, %d permitted random draw site(s)", len(fns), nInstr, randSites))
}

// natural loop of header h in fi.
func naturalLoop(fi *FuncInfo, h int) map[int]bool {
	loop := map[int]bool{h: true}
	var work []int
	for _, t := range fi.Preds[h] {
		if fi.Dominates(h, t) {
			if !loop[t] {
				loop[t] = true
				work = append(work, t)
			}
		}
	}
	for len(work) > 0 {
		b := work[len(work)-1]
		work = work[:len(work)-1]
		for _, pr := range fi.Preds[b] {
			if !loop[pr] {
				loop[pr] = true
				work = append(work, pr)
			}
		}
	}
	return loop
}

type mapRangeSite struct {
	fn   *ssa.Function
	rng  *ssa.Range
	next *ssa.Next
}

func mapRanges(p *Prog, fns []*ssa.Function) []mapRangeSite {
	var out []mapRangeSite
	for _, fn := range fns {
		for _, in := range p.liveInstrsOf(fn) {
			r, ok := in.(*ssa.Range)
			if !ok {
				continue
			}
			if _, isMap := r.X.Type().Underlying().(*types.Map); !isMap {
				continue
			}
			for _, ref := range *r.Referrers() {
				if nx, ok := ref.(*ssa.Next); ok {
					out = append(out, mapRangeSite{fn, r, nx})
				}
			}
		}
	}
	return out
}

// dependsOn: does value v (transitively through pure SSA ops) depend on any of srcs?
func dependsOn(v ssa.Value, srcs map[ssa.Value]bool, depth int) bool {
	if v == nil || depth > 12 {
		return false
	}
	if srcs[v] {
		return true
	}
	in, ok := v.(ssa.Instruction)
	if !ok {
		return false
	}
	if al, isAlloc := v.(*ssa.Alloc); isAlloc {
		// values packed into a local array/struct (variadic arguments, literals)
		for _, ref := range *al.Referrers() {
			var addr ssa.Value
			switch x := ref.(type) {
			case *ssa.IndexAddr:
				addr = x
			case *ssa.FieldAddr:
				addr = x
			default:
				continue
			}
			for _, r2 := range *addr.Referrers() {
				if st, ok := r2.(*ssa.Store); ok && st.Addr == addr && dependsOn(st.Val, srcs, depth+1) {
					return true
				}
			}
		}
		return false
	}
	var ops []*ssa.Value
	for _, op := range in.Operands(ops) {
		if *op != nil && dependsOn(*op, srcs, depth+1) {
			return true
		}
	}
	return false
}

// C19.M — E-MAPRANGE
func c19MapRanges(c *Check, R map[*ssa.Function]bool) {
	p := c.P
	const rule = "C19.M"
	var fns []*ssa.Function
	for f := range R {
		if fnPkg(f).Path() != pkgPaths["raftpb"] {
			fns = append(fns, f)
		}
	}
	sortFuncs(fns)
	for _, site := range mapRanges(p, fns) {
		fi := p.Info(site.fn)
		h := site.next.Block().Index
		loop := naturalLoop(fi, h)
		// the body is entered on the header's "ok" edge even if it never loops back
		// (e.g. `for k := range m { return k }`)
		bodySrc := map[int]bool{}
		for b := range loop {
			if b != h {
				bodySrc[b] = true
			}
		}
		hb := fi.Fn.Blocks[h]
		normalExit := -1
		if _, ok := hb.Instrs[len(hb.Instrs)-1].(*ssa.If); ok && len(hb.Succs) == 2 && fi.Cut[h] < 0 {
			normalExit = hb.Succs[1].Index
			be := hb.Succs[0].Index
			if !loop[be] {
				// body without a back edge: everything up to the normal exit is "body"
				for b := range fi.ReachableFrom([]int{be}, func(x int) bool { return x == h || x == normalExit }) {
					if b != normalExit && b != h {
						bodySrc[b] = true
						loop[b] = true
					}
				}
			}
		}
		where := p.site(site.rng)
		if !site.rng.Pos().IsValid() {
			where = p.site(site.next)
		}
		construct := "range over map " + sanitizeKey(fi.Sym(site.rng.X).Key())
		// values derived from the iteration (key, value)
		iter := map[ssa.Value]bool{site.next: true}
		var problems []string
		var sortedSlices []ssa.Value // containers whose order depends on iteration and must be sorted after the loop
		for b := range loop {
			for _, in := range fi.liveInstrs(b) {
				switch x := in.(type) {
				case *ssa.MapUpdate:
					// insertion into a map: commutative for distinct keys
				case *ssa.Store:
					root := rootOfAddr(x.Addr)
					switch r := root.(type) {
					case *ssa.Alloc:
						if allocCaptured(r) {
							problems = append(problems, fmt.Sprintf("store to captured variable at %s", p.site(in)))
						} else if _, isIdx := x.Addr.(*ssa.IndexAddr); isIdx {
							if _, isArr := r.Type().(*types.Pointer).Elem().Underlying().(*types.Array); isArr && dependsOn(x.Val, iter, 0) && !isVarargsArray(r) {
								sortedSlices = append(sortedSlices, r)
							}
						}
					case *ssa.MakeSlice:
						sortedSlices = append(sortedSlices, r)
					case *ssa.Phi:
						if _, isIdx := x.Addr.(*ssa.IndexAddr); isIdx {
							sortedSlices = append(sortedSlices, r)
						} else {
							problems = append(problems, fmt.Sprintf("store through merged pointer at %s", p.site(in)))
						}
					default:
						// field store on the ranged element (pointer obtained from the iteration or a lookup keyed by it)
						if fa, ok := x.Addr.(*ssa.FieldAddr); ok && dependsOn(fa.X, iter, 0) {
							continue
						}
						if isFreshValue(root, 0) {
							continue
						}
						problems = append(problems, fmt.Sprintf("store to %s at %s", fi.Sym(x.Addr), p.site(in)))
					}
				case ssa.CallInstruction:
					if _, isGo := in.(*ssa.Go); isGo {
						problems = append(problems, "go statement at "+p.site(in))
						continue
					}
					cc := x.Common()
					if b, ok := cc.Value.(*ssa.Builtin); ok {
						switch b.Name() {
						case "append":
							// handled through the loop-carried phi below
						case "delete", "len", "cap", "min", "max", "print", "println", "copy":
						default:
						}
						continue
					}
					if cc.IsInvoke() && p.isLoggerIface(cc.Value.Type()) {
						continue // logging is not an output of Ready
					}
					okCall := true
					why := ""
					for _, callee := range p.Callees(x) {
						pk := fnPkg(callee)
						if pk == nil || !isOurPath(pk.Path()) {
							continue // external: fmt, errors, slices... produce values only
						}
						e := p.Effects(callee)
						if e.Other {
							okCall, why = false, "callee has concurrency effects"
						}
						for l := range e.Writes {
							switch lv := l.(type) {
							case string:
								if strings.HasPrefix(lv, "elem:map[") || strings.HasPrefix(lv, "deref:map[") {
									continue
								}
								okCall, why = false, "callee writes "+lv
							case *types.Var:
								if p.isStatsField(lv) {
									continue
								}
								// a field of the ranged element
								okCall, why = false, "callee writes field "+lv.Name()
							default:
								okCall, why = false, "callee writes a variable"
							}
						}
					}
					if !okCall {
						problems = append(problems, fmt.Sprintf("call %s at %s: %s", fi.Sym(valueOfCall(x)), p.site(in), why))
					}
				case *ssa.Return:
					for _, r := range x.Results {
						if dependsOn(r, iter, 0) {
							problems = append(problems, fmt.Sprintf("early return of an iteration-dependent value at %s", p.site(in)))
						}
					}
				case *ssa.Panic:
				case *ssa.Send, *ssa.Select:
					problems = append(problems, "channel operation at "+p.site(in))
				}
			}
		}
		// early exits: blocks entered from the loop body (not from the header's
		// normal exit) – a return/break taken at an element chosen by iteration order
		exitSeen := map[int]bool{}
		var exitWork []int
		for b := range bodySrc {
			for _, s2 := range fi.Succs[b] {
				if !loop[s2] && !exitSeen[s2] {
					exitSeen[s2] = true
					exitWork = append(exitWork, s2)
					// values merged at the exit target from inside the body
					for _, in := range fi.Fn.Blocks[s2].Instrs {
						ph, ok := in.(*ssa.Phi)
						if !ok {
							break
						}
						for i, e := range ph.Edges {
							pb := ph.Block().Preds[i].Index
							if loop[pb] && pb != h && dependsOn(e, iter, 0) {
								problems = append(problems, fmt.Sprintf("value %s leaving the loop at a break depends on the element visited", ph.Name()))
							}
						}
					}
				}
			}
		}
		for len(exitWork) > 0 {
			b := exitWork[len(exitWork)-1]
			exitWork = exitWork[:len(exitWork)-1]
			// only blocks private to the early exit (dominated by it): stop at joins with the normal exit
			if len(fi.Preds[b]) > 1 {
				allFromBody := true
				for _, pr := range fi.Preds[b] {
					if !loop[pr] && !exitSeen[pr] {
						allFromBody = false
					}
				}
				if !allFromBody {
					continue
				}
			}
			for _, in := range fi.liveInstrs(b) {
				switch x := in.(type) {
				case *ssa.Return:
					for _, r := range x.Results {
						if dependsOn(r, iter, 0) {
							problems = append(problems, fmt.Sprintf("early return of an iteration-dependent value at %s", p.site(in)))
						}
					}
				case *ssa.Store:
					if _, fresh := rootOfAddr(x.Addr).(*ssa.Alloc); !fresh && dependsOn(x.Val, iter, 0) {
						problems = append(problems, fmt.Sprintf("iteration-dependent store on early exit at %s", p.site(in)))
					}
				}
			}
			for _, s2 := range fi.Succs[b] {
				if !loop[s2] && !exitSeen[s2] {
					exitSeen[s2] = true
					exitWork = append(exitWork, s2)
				}
			}
		}
		// loop-carried values at the header
		for _, in := range fi.Fn.Blocks[h].Instrs {
			phi, ok := in.(*ssa.Phi)
			if !ok {
				continue
			}
			for i, e := range phi.Edges {
				pred := phi.Block().Preds[i].Index
				if !loop[pred] {
					continue
				}
				kind := commutativeUpdate(e, phi, 0)
				switch kind {
				case "ok":
				case "append":
					sortedSlices = append(sortedSlices, phi)
				default:
					// a carried value that no code after the loop (or in it) uses is harmless
					if valueUsedOutside(phi, loop) || usedInLoopEffects(phi) {
						problems = append(problems, fmt.Sprintf("loop-carried value %s is overwritten per iteration (last one wins)", phi.Name()))
					}
				}
			}
		}
		// containers filled in iteration order must be sorted before any other use after the loop
		for _, sl := range dedupValues(sortedSlices) {
			if ok, why := sortedAfterLoop(p, fi, sl, loop); !ok {
				problems = append(problems, why)
			}
		}
		// break with iteration-dependent state is covered by the phi rule at the exit
		if len(problems) == 0 {
			c.Ok(rule, construct, fnName(site.fn), where, "loop body is order-insensitive (map inserts, commutative accumulation, sorted-before-use collection, order-independent exits)", fmt.Sprintf("%d blocks", len(loop)))
		} else {
			c.Bad(rule, construct, fnName(site.fn), where, "loop body is order-insensitive", strings.Join(problems, "; "))
		}
	}
}

func isVarargsArray(al *ssa.Alloc) bool {
	return strings.Contains(al.Comment, "varargs")
}

func valueOfCall(ci ssa.CallInstruction) ssa.Value {
	if v := ci.Value(); v != nil {
		return v
	}
	return ci.Common().Value
}

func dedupValues(vs []ssa.Value) []ssa.Value {
	seen := map[ssa.Value]bool{}
	var out []ssa.Value
	for _, v := range vs {
		if !seen[v] {
			seen[v] = true
			out = append(out, v)
		}
	}
	return out
}

// commutativeUpdate classifies the back-edge value e of loop phi `phi`.
func commutativeUpdate(e ssa.Value, phi *ssa.Phi, depth int) string {
	if e == phi {
		return "ok"
	}
	if depth > 6 {
		return "other"
	}
	switch x := e.(type) {
	case *ssa.BinOp:
		switch x.Op {
		case token.ADD, token.SUB, token.OR, token.AND, token.XOR, token.MUL:
			if commutativeUpdate(x.X, phi, depth+1) == "ok" && !mentions(x.Y, phi, 0) {
				return "ok"
			}
			if x.Op != token.SUB && commutativeUpdate(x.Y, phi, depth+1) == "ok" && !mentions(x.X, phi, 0) {
				return "ok"
			}
		}
	case *ssa.Phi:
		// merge of branches inside the body: every edge is itself a commutative update, or all
		// non-carried edges are one and the same constant (monotone flag)
		res := "ok"
		var consts []string
		for _, ee := range x.Edges {
			if k, ok := ee.(*ssa.Const); ok {
				consts = append(consts, k.String())
				continue
			}
			switch commutativeUpdate(ee, phi, depth+1) {
			case "ok":
			case "append":
				res = "append"
			default:
				return "other"
			}
		}
		for _, k := range consts {
			if k != consts[0] {
				return "other"
			}
		}
		return res
	case *ssa.Call:
		if b, ok := x.Common().Value.(*ssa.Builtin); ok {
			switch b.Name() {
			case "min", "max":
				n := 0
				for _, a := range x.Common().Args {
					if commutativeUpdate(a, phi, depth+1) == "ok" {
						n++
					}
				}
				if n == 1 {
					return "ok"
				}
			case "append":
				if r := commutativeUpdate(x.Common().Args[0], phi, depth+1); r == "ok" || r == "append" {
					return "append"
				}
			}
		}
	case *ssa.Convert:
		return commutativeUpdate(x.X, phi, depth+1)
	}
	return "other"
}

func mentions(v ssa.Value, target ssa.Value, depth int) bool {
	if v == target {
		return true
	}
	if depth > 8 {
		return false
	}
	in, ok := v.(ssa.Instruction)
	if !ok {
		return false
	}
	if _, isPhi := v.(*ssa.Phi); isPhi {
		return false
	}
	var ops []*ssa.Value
	for _, op := range in.Operands(ops) {
		if *op != nil && mentions(*op, target, depth+1) {
			return true
		}
	}
	return false
}

func valueUsedOutside(v ssa.Value, loop map[int]bool) bool {
	for _, r := range *v.Referrers() {
		if r.Block() != nil && !loop[r.Block().Index] {
			return true
		}
	}
	return false
}

func usedInLoopEffects(v ssa.Value) bool {
	for _, r := range *v.Referrers() {
		switch r.(type) {
		case *ssa.Store, *ssa.MapUpdate, ssa.CallInstruction, *ssa.Return, *ssa.IndexAddr:
			return true
		}
	}
	return false
}

// sortedAfterLoop: container `sl` (alloc/make/phi) is passed to slices.Sort /
// slices.SortFunc after the loop, and that call dominates every other use
// outside the loop.
func sortedAfterLoop(p *Prog, fi *FuncInfo, sl ssa.Value, loop map[int]bool) (bool, string) {
	// all aliases: the value, slices of it, phis merging it
	alias := map[ssa.Value]bool{sl: true}
	for changed := true; changed; {
		changed = false
		for v := range alias {
			for _, r := range *v.Referrers() {
				switch x := r.(type) {
				case *ssa.Slice:
					if x.X == v && !alias[x] {
						alias[x] = true
						changed = true
					}
				case *ssa.Phi:
					if !alias[x] {
						alias[x] = true
						changed = true
					}
				case *ssa.Call:
					if b, ok := x.Common().Value.(*ssa.Builtin); ok && b.Name() == "append" && x.Common().Args[0] == v && !alias[x] {
						alias[x] = true
						changed = true
					}
				}
			}
		}
		// phis whose edges are aliases pull in their other edges' roots too (stk[:n] vs make)
		for v := range alias {
			if ph, ok := v.(*ssa.Phi); ok {
				for _, e := range ph.Edges {
					if !alias[e] {
						if _, isConst := e.(*ssa.Const); !isConst {
							alias[e] = true
							changed = true
						}
					}
				}
			}
		}
	}
	var sortCall ssa.Instruction
	var others []ssa.Instruction
	for v := range alias {
		for _, r := range *v.Referrers() {
			if r.Block() == nil || loop[r.Block().Index] || !fi.Live(r) {
				continue
			}
			if _, isAlias := r.(ssa.Value); isAlias && alias[r.(ssa.Value)] {
				continue
			}
			if call, ok := r.(*ssa.Call); ok {
				if callee := call.Common().StaticCallee(); callee != nil {
					n := fnName(callee)
					if strings.HasPrefix(n, "slices.Sort") {
						if sortCall == nil || fi.InstrDominates(call, sortCall) {
							sortCall = call
						}
						continue
					}
				}
				if b, ok := call.Common().Value.(*ssa.Builtin); ok && (b.Name() == "len" || b.Name() == "cap") {
					continue
				}
			}
			switch r.(type) {
			case *ssa.DebugRef:
				continue
			}
			// definitions before the loop (the initial make / slicing) are not uses of the filled content
			if reachesLoop(fi, r, loop) {
				continue
			}
			others = append(others, r)
		}
	}
	if len(others) == 0 && sortCall == nil {
		return true, ""
	}
	if sortCall == nil {
		return false, fmt.Sprintf("collection %s filled in map order is used at %s without being sorted", sl.Name(), p.site(others[0]))
	}
	for _, o := range others {
		if o != sortCall && !fi.InstrDominates(sortCall, o) {
			return false, fmt.Sprintf("collection %s filled in map order is used at %s before/without the sort at %s", sl.Name(), p.site(o), p.site(sortCall))
		}
	}
	return true, ""
}

func reachesLoop(fi *FuncInfo, in ssa.Instruction, loop map[int]bool) bool {
	r := fi.ReachableFrom([]int{in.Block().Index}, nil)
	for b := range loop {
		if r[b] {
			return true
		}
	}
	return false
}

// C19.F / C19.P / E0
func c19Misc(c *Check, R map[*ssa.Function]bool) {
	p := c.P
	// C19.P: no map fields in raftpb messages
	pk := p.Pkgs["raftpb"]
	n := 0
	for _, name := range pk.Types.Scope().Names() {
		tn, ok := pk.Types.Scope().Lookup(name).(*types.TypeName)
		if !ok {
			continue
		}
		st, ok := tn.Type().Underlying().(*types.Struct)
		if !ok {
			continue
		}
		n++
		for i := 0; i < st.NumFields(); i++ {
			if _, isMap := st.Field(i).Type().Underlying().(*types.Map); isMap {
				c.Bad("C19.P", "map field "+name+"."+st.Field(i).Name(), "-", p.Pos(st.Field(i).Pos()), "wire messages have no unordered component", "")
			}
		}
	}
	c.Ok("C19.P", "raftpb message types", "-", "-", "no protobuf message has a map field (Marshal has no unordered component)", fmt.Sprintf("%d struct types", n))
	// C19.F: formatted protobuf values never flow into state
	var fns []*ssa.Function
	for f := range R {
		if fnPkg(f).Path() != pkgPaths["raftpb"] {
			fns = append(fns, f)
		}
	}
	sortFuncs(fns)
	nFmt := 0
	for _, fn := range fns {
		fi := p.Info(fn)
		for _, in := range p.liveInstrsOf(fn) {
			call, ok := in.(*ssa.Call)
			if !ok {
				continue
			}
			callee := call.Common().StaticCallee()
			isFmt := callee != nil && callee.Pkg != nil && callee.Pkg.Pkg.Path() == "fmt" && (strings.HasPrefix(callee.Name(), "Sprint") || callee.Name() == "Errorf")
			isString := call.Common().IsInvoke() && call.Common().Method.Name() == "String" || callee != nil && callee.Name() == "String" && callee.Signature.Recv() != nil && strings.Contains(callee.Signature.Recv().Type().String(), "raftpb")
			if !isFmt && !isString {
				continue
			}
			nFmt++
			for _, sk := range fi.ForwardSinks(call) {
				if sk.Kind == "field" || sk.Kind == "elem" {
					// error values / describe helpers build strings; storing them into protocol state is the problem
					if sk.Field != nil && (sk.Field.Pkg() == nil || !isOurPath(sk.Field.Pkg().Path())) {
						continue
					}
					// trace events (with_tla build) are a sink like the logger, not protocol state
					if sk.Field != nil {
						if owner := p.fieldOwner(sk.Field); owner != nil && strings.HasPrefix(owner.Obj().Name(), "Tracing") {
							continue
						}
					}
					c.Bad("C19.F", "formatted text stored into state", fnName(fn), p.site(sk.Instr), "formatted / stringified values go only to the logger, panics or error returns", fmt.Sprintf("field %v", sk.Field))
				}
			}
		}
	}
	c.Ok("C19.F", "formatting calls scanned", "-", "-", "no formatted text flows into protocol state or messages", fmt.Sprintf("%d fmt/String call sites", nFmt))
}

// ruleE0: the analysed packages use no reflection, unsafe or cgo (soundness
// precondition of the VTA call graph; DESIGN §9).
func ruleE0(p *Prog) []string {
	var out []string
	for _, sp := range []string{"raft", "confchange", "quorum", "tracker"} {
		pk := p.Pkgs[sp]
		if pk == nil {
			continue
		}
		var imps []string
		for path := range pk.Imports {
			imps = append(imps, path)
		}
		sort.Strings(imps)
		for _, path := range imps {
			if path == "unsafe" || path == "reflect" || path == "C" {
				out = append(out, fmt.Sprintf("E0: package %s imports %s (call graph soundness precondition)", sp, path))
			}
		}
	}
	return out
}

func c19Determinism(c *Check) {
	p := c.P
	roots := apiRoots(p)
	R := reachableOurs(p, roots)
	c.Note("API roots: %d, reachable functions in repo packages: %d", len(roots), len(R))
	c19Effects(c, R)
	c19MapRanges(c, R)
	gGlobals(c, "C19.G")
	c19Misc(c, R)
}

var localNameRE = regexp.MustCompile(`(new#|phi#|\?|#)?t[0-9]+@\{[^}]*\}`)

// sanitizeKey removes SSA register names from a symbol key so that
// constructs are stable under unrelated edits.
func sanitizeKey(k string) string {
	return localNameRE.ReplaceAllStringFunc(k, func(m string) string {
		switch {
		case strings.HasPrefix(m, "new#"):
			return "local"
		case strings.HasPrefix(m, "phi#"):
			return "phi"
		case strings.HasPrefix(m, "#"):
			return ""
		}
		return "tmp"
	})
}
