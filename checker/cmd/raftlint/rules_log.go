package main

import (
	"fmt"
	"go/types"
	"strings"

	"golang.org/x/tools/go/ssa"
)

// ownership: fields of `owner` are stored only by methods of owner, or into
// fresh objects (constructors). extraOK lists additional allowed writer functions.
func ownership(c *Check, rule string, owner *types.Named, fields []*types.Var, extraOK map[*ssa.Function]string) {
	p := c.P
	if owner == nil {
		return
	}
	for _, f := range fields {
		if f == nil {
			continue
		}
		for _, st := range p.StoresTo(f) {
			site := p.site(st.Instr)
			construct := fmt.Sprintf("store %s.%s", owner.Obj().Name(), f.Name())
			if st.Fresh {
				c.OkTrivial(rule, construct+" (constructor)", fnName(st.Fn), site, "fresh object", "store into a freshly allocated value")
				continue
			}
			fn := st.Fn
			for fn.Parent() != nil {
				fn = fn.Parent()
			}
			if recv := fn.Signature.Recv(); recv != nil {
				t := recv.Type()
				if pt, ok := t.(*types.Pointer); ok {
					t = pt.Elem()
				}
				if types.Identical(t, owner) {
					c.Ok(rule, construct, fnName(st.Fn), site, "writer is a method of "+owner.Obj().Name(), "owner method")
					continue
				}
			}
			if why, ok := extraOK[fn]; ok {
				c.Ok(rule, construct, fnName(st.Fn), site, "writer is a method of "+owner.Obj().Name()+" or a listed role", why)
				continue
			}
			c.Bad(rule, construct, fnName(st.Fn), site, "only methods of "+owner.Obj().Name()+" (or constructors) write this field", "foreign writer")
		}
	}
}

func (p *Prog) fields(pkg, typ string, names ...string) []*types.Var {
	var out []*types.Var
	for _, n := range names {
		out = append(out, p.Field(pkg, typ, n))
	}
	return out
}

func indexSym(base *Sym, i int64) *Sym {
	return &Sym{K: KIndex, Args: []*Sym{base, constSym(i)}}
}

// G-TRUNC — nothing at or below the commit index is ever discarded or replaced.
func gTrunc(c *Check) {
	p := c.P
	const rule = "G-TRUNC"
	unst := p.Type("raft", "unstable")
	ownership(c, rule+".own", unst, p.fields("raft", "unstable", "entries", "offset"), nil)

	taa := p.Method("raft", "unstable", "truncateAndAppend")
	urestore := p.Method("raft", "unstable", "restore")
	committedF := p.Field("raft", "raftLog", "committed")
	unstableF := p.Field("raft", "raftLog", "unstable")
	getIndexE := p.Method("raftpb", "Entry", "GetIndex")
	if taa == nil || urestore == nil || committedF == nil || getIndexE == nil {
		return
	}
	// appends: at every call of truncateAndAppend(ents): ents[0].GetIndex()-1 >= committed
	for _, cs := range p.CallsTo(taa) {
		fi := p.Info(cs.Caller)
		site := p.site(cs.Instr)
		args := callArgs(cs.Instr)
		recv := fi.Sym(args[0]) // &l.unstable
		ents := fi.Sym(args[1])
		logSym := ownerOfEmbedded(recv, unstableF)
		if logSym == nil {
			c.Undecided(rule+".append", "truncateAndAppend receiver", fnName(cs.Caller), site, "receiver is the unstable part of a raftLog", "receiver "+recv.Key())
			continue
		}
		first := CallSym(getIndexE, indexSym(ents, 0))
		lhs := &Sym{K: KBin, Name: "-", Args: []*Sym{first, constSym(1)}}
		req := ReqCmp(lhs, ">=", FieldOf(logSym, committedF))
		ok, chain := proveAppendAboveCommit(c, fi, cs.Instr, req, ents)
		c.Result(ok, rule+".append", "call unstable.truncateAndAppend", fnName(cs.Caller), site,
			"first appended index - 1 >= committed (guard in callee, caller, or an equivalent on every call path)", map[bool]string{true: "established", false: "not established"}[ok], chain...)
	}
	// restore: at every call of unstable.restore(s): s.index > committed (before it is raised)
	for _, cs := range p.CallsTo(urestore) {
		fi := p.Info(cs.Caller)
		site := p.site(cs.Instr)
		args := callArgs(cs.Instr)
		recv := fi.Sym(args[0])
		logSym := ownerOfEmbedded(recv, unstableF)
		if logSym == nil {
			c.Undecided(rule+".restore", "unstable.restore receiver", fnName(cs.Caller), site, "receiver is the unstable part of a raftLog", "receiver "+recv.Key())
			continue
		}
		snap := fi.Sym(args[1])
		sidx := snapIndexSym(p, snap)
		// if the same function has just raised committed to this value, evaluate at that store
		at := ssa.Instruction(cs.Instr)
		for _, st := range p.StoresTo(committedF) {
			if st.Fn == cs.Caller && !st.Whole && fi.InstrDominates(st.Instr, cs.Instr) && fi.Sym(st.Val).Key() == sidx.Key() {
				at = st.Instr
			}
		}
		pr := p.Prove(fi, at, []Req{ReqCmp(sidx, ">", FieldOf(logSym, committedF))})
		c.Result(pr.OK, rule+".restore", "call unstable.restore", fnName(cs.Caller), site, "snapshot index > committed", describeProof(pr), pr.Chain...)
	}
}

// ownerOfEmbedded: given the address/location of raftLog.unstable, return the raftLog symbol.
func ownerOfEmbedded(recv *Sym, fld *types.Var) *Sym {
	if recv.K == KAddr {
		recv = recv.Args[0]
	}
	if recv.K == KField && recv.Fld == fld {
		return recv.Args[0]
	}
	return nil
}

func snapIndexSym(p *Prog, snap *Sym) *Sym {
	gm := p.Method("raftpb", "Snapshot", "GetMetadata")
	gi := p.Method("raftpb", "SnapshotMetadata", "GetIndex")
	return CallSym(gi, CallSym(gm, snap))
}

func snapTermSym(p *Prog, snap *Sym) *Sym {
	gm := p.Method("raftpb", "Snapshot", "GetMetadata")
	gt := p.Method("raftpb", "SnapshotMetadata", "GetTerm")
	return CallSym(gt, CallSym(gm, snap))
}

// proveAppendAboveCommit: the linear guard, lifted; or one of the two
// equivalent guards the protocol provides on the respective call path
// (DESIGN §4 G-TRUNC: "either one suffices").
func proveAppendAboveCommit(c *Check, fi *FuncInfo, at ssa.Instruction, req Req, ents *Sym) (bool, []string) {
	p := c.P
	ok, chain := p.prove1(fi, at, req, 0, map[*ssa.Function]bool{})
	if ok {
		return true, chain
	}
	// lift to callers of this function, with per-caller alternatives
	if fi.Fn.Parent() != nil || ents.K != KParam {
		return false, chain
	}
	sites := p.CallsTo(fi.Fn)
	if len(sites) == 0 {
		return false, append(chain, "no callers")
	}
	prmIdx := -1
	for i, prm := range fi.Fn.Params {
		if prm == ents.V {
			prmIdx = i
		}
	}
	committedF := p.Field("raft", "raftLog", "committed")
	findConflict := p.Method("raft", "raftLog", "findConflict")
	lastIndex := p.Method("raft", "raftLog", "lastIndex")
	getIndexE := p.Method("raftpb", "Entry", "GetIndex")
	idxF := p.Field("raftpb", "Entry", "Index")
	for _, cs := range sites {
		cfi := p.Info(cs.Caller)
		args := callArgs(cs.Instr)
		m := map[ssa.Value]*Sym{}
		for i, prm := range fi.Fn.Params {
			if i < len(args) {
				m[prm] = cfi.Sym(args[i])
			}
		}
		ok1, ch := p.prove1(cfi, cs.Instr, req.subst(m), 1, map[*ssa.Function]bool{})
		if ok1 {
			chain = append(chain, ch...)
			continue
		}
		arg := cfi.Sym(args[prmIdx])
		recv := cfi.Sym(args[0])
		// (a) follower path: argument is entries[ci-(prev.index+1):] with ci <- findConflict(entries) and ci > committed
		if arg.K == KSlice {
			low := arg.Args[1]
			var ci *Sym
			low.Walk(func(x *Sym) {
				if x.K == KCall && x.Fn == findConflict {
					ci = x
				}
			})
			if ci != nil && len(ci.Args) == 2 && ci.Args[1].Key() == arg.Args[0].Key() {
				f := cfi.FactsAt(cs.Instr)
				if f.ImpliesCmp(ci, ">", FieldOf(recv, committedF)) {
					chain = append(chain, fmt.Sprintf("%s: call at %s appends entries[ci-…:] with ci <- findConflict(entries) and guard ci > committed {%s}", shortFn(cs.Caller), p.site(cs.Instr), strings.Join(f.Describe(), "; ")))
					continue
				}
			}
		}
		// (b) leader path: every element of the appended slice is stamped Index = lastIndex()+1+i
		if okb, why := stampedFromLastIndex(p, cfi, args[prmIdx], lastIndex, idxF); okb {
			chain = append(chain, fmt.Sprintf("%s: call at %s appends entries stamped from lastIndex()+1 (%s); lastIndex >= committed is G-COMMIT-BOUND", shortFn(cs.Caller), p.site(cs.Instr), why))
			continue
		}
		_ = getIndexE
		chain = append(chain, ch...)
		chain = append(chain, fmt.Sprintf("%s: call at %s: no guard relates the first appended index to committed", shortFn(cs.Caller), p.site(cs.Instr)))
		return false, chain
	}
	return true, chain
}

// stampedFromLastIndex: slice value `v` (possibly a variadic copy) is a fresh
// slice whose every element gets Index <- lastIndex()+1+i (linear, coefficient
// of the loop variable is 1, constant 1).
func stampedFromLastIndex(p *Prog, fi *FuncInfo, v ssa.Value, lastIndex *ssa.Function, idxF *types.Var) (bool, string) {
	// find the underlying MakeSlice
	var mk *ssa.MakeSlice
	seen := map[ssa.Value]bool{}
	var find func(x ssa.Value)
	find = func(x ssa.Value) {
		if seen[x] || mk != nil {
			return
		}
		seen[x] = true
		switch y := x.(type) {
		case *ssa.MakeSlice:
			mk = y
		case *ssa.Slice:
			find(y.X)
		case *ssa.Phi:
			for _, e := range y.Edges {
				find(e)
			}
		case *ssa.ChangeType:
			find(y.X)
		}
	}
	find(v)
	if mk == nil {
		return false, ""
	}
	// stores cloned[i].Index = new(li+1+i)
	for _, st := range p.StoresTo(idxF) {
		if st.Fn != fi.Fn || st.Whole {
			continue
		}
		fa := st.Addr.(*ssa.FieldAddr)
		base := fi.Sym(fa.X) // cloned[i] loaded
		var pos *Sym
		if base.K == KIndex && (base.Args[0].V == ssa.Value(mk) || base.Args[0].Key() == fi.Sym(mk).Key()) {
			pos = base.Args[1]
		} else {
			// a local element value that is stored into cloned[j] afterwards
			for _, in := range p.liveInstrsOf(fi.Fn) {
				es, ok := in.(*ssa.Store)
				if !ok || es.Val != fa.X {
					continue
				}
				if ia, ok := es.Addr.(*ssa.IndexAddr); ok && ia.X == ssa.Value(mk) {
					pos = fi.Sym(ia.Index)
				}
			}
		}
		if pos == nil {
			continue
		}
		base = &Sym{K: KIndex, Args: []*Sym{fi.Sym(mk), pos}}
		val := fi.PointeeOf(st.Val)
		l := LinOf(val)
		l.add(LinOf(base.Args[1]), -1) // minus the element position i
		okShape := l.K == 1 && len(l.T) == 1
		for k, s := range l.S {
			if !(s.K == KCall && s.Fn == lastIndex && l.T[k] == 1) {
				okShape = false
			}
		}
		if okShape {
			return true, fmt.Sprintf("element [%s].Index <- %s at %s", base.Args[1], val, p.site(st.Instr))
		}
	}
	return false, ""
}

// G-STABLE — an entry leaves the unstable log only on an acknowledgement that
// names it by (index, term) in the current term.
func gStable(c *Check) {
	p := c.P
	const rule = "G-STABLE"
	stableTo := p.Method("raft", "unstable", "stableTo")
	maybeTerm := p.Method("raft", "unstable", "maybeTerm")
	entF := p.Field("raft", "unstable", "entries")
	offF := p.Field("raft", "unstable", "offset")
	eidT := p.Field("raft", "entryID", "term")
	eidI := p.Field("raft", "entryID", "index")
	if stableTo == nil || maybeTerm == nil {
		return
	}
	fi := p.Info(stableTo)
	var first ssa.Instruction
	var stores []FieldStore
	for _, f := range []*types.Var{entF, offF} {
		for _, st := range p.StoresTo(f) {
			if st.Fn == stableTo {
				stores = append(stores, st)
			}
		}
	}
	for _, st := range stores {
		if first == nil || fi.InstrDominates(st.Instr, first) {
			first = st.Instr
		}
	}
	// the drop may live in a helper called on the same receiver: the guards are then required at
	// the call, and the helper's stores are read through the parameter binding
	var hfi *FuncInfo
	var hmap map[ssa.Value]*Sym
	if first == nil {
		for _, in := range p.liveInstrsOf(stableTo) {
			ci, ok := in.(ssa.CallInstruction)
			if !ok {
				continue
			}
			callee := ci.Common().StaticCallee()
			if callee == nil || callee.Blocks == nil || callee.Signature.Recv() == nil || callee == maybeTerm {
				continue
			}
			args := callArgs(ci)
			if len(args) != len(callee.Params) || len(args) == 0 || fi.Sym(args[0]).Key() != fi.Sym(stableTo.Params[0]).Key() {
				continue
			}
			var hs []FieldStore
			for _, f := range []*types.Var{entF, offF} {
				for _, st := range p.StoresTo(f) {
					if st.Fn == callee && !st.Whole {
						hs = append(hs, st)
					}
				}
			}
			if len(hs) == 0 {
				continue
			}
			stores, first = hs, in
			hfi = p.Info(callee)
			hmap = map[ssa.Value]*Sym{}
			for i, prm := range callee.Params {
				hmap[prm] = fi.Sym(args[i])
			}
			break
		}
	}
	valOf := func(st FieldStore) *Sym {
		if hfi != nil {
			return resimplify(Subst(hfi.Sym(st.Val), hmap))
		}
		return fi.Sym(st.Val)
	}
	if first == nil {
		c.Bad(rule+".guard", "stores in unstable.stableTo", fnName(stableTo), p.Pos(stableTo.Pos()), "stableTo drops the acknowledged prefix", "no store to entries/offset found")
	} else {
		for _, st := range stores {
			if hfi != nil {
				continue // inside the helper, behind the guarded call
			}
			if st.Instr != first && !fi.InstrDominates(first, st.Instr) {
				c.Bad(rule+".guard", "store in unstable.stableTo outside the guarded path", fnName(stableTo), p.site(st.Instr), "all drops happen on the one guarded path", "store not dominated by the guarded store")
			}
		}
		u := fi.Sym(stableTo.Params[0])
		id := fi.Sym(stableTo.Params[1])
		mt := CallSym(maybeTerm, u, FieldOf(id, eidI))
		gt := &Sym{K: KExtract, Idx: 0, Args: []*Sym{mt}}
		okv := &Sym{K: KExtract, Idx: 1, Args: []*Sym{mt}}
		site := p.site(first)
		pr := p.Prove(fi, first, []Req{ReqCmp(gt, "==", FieldOf(id, eidT))})
		c.Result(pr.OK, rule+".guard", "stableTo term comparison", fnName(stableTo), site, "term found at id.index == id.term", describeProof(pr), pr.Chain...)
		pr = p.Prove(fi, first, []Req{ReqCmp(FieldOf(id, eidI), ">=", FieldOf(u, offF))})
		c.Result(pr.OK, rule+".guard", "stableTo index within entries", fnName(stableTo), site, "id.index >= u.offset", describeProof(pr), pr.Chain...)
		pr = p.Prove(fi, first, []Req{ReqBool(okv, true)})
		c.Result(pr.OK, rule+".guard", "stableTo lookup ok", fnName(stableTo), site, "maybeTerm found the index", describeProof(pr), pr.Chain...)
		// the new offset is id.index+1 and the slice drops exactly that many
		for _, st := range stores {
			if st.Whole {
				continue
			}
			fa := st.Addr.(*ssa.FieldAddr)
			fld := derefStruct(fa.X.Type()).Field(fa.Field)
			v := valOf(st)
			if fld == offF {
				d := LinOf(v)
				d.add(LinOf(FieldOf(id, eidI)), -1)
				c.Result(len(d.T) == 0 && d.K == 1, rule+".shape", "stableTo new offset", fnName(stableTo), p.site(st.Instr), "offset <- id.index+1", "offset <- "+v.Key())
			} else if fld == entF {
				ok := v.K == KSlice && v.Args[0].K == KField && v.Args[0].Fld == entF && v.Args[2].K == KNil
				if ok {
					d := LinOf(v.Args[1]) // id.index+1-offset
					d.add(LinOf(FieldOf(id, eidI)), -1)
					d.add(LinOf(FieldOf(u, offF)), 1)
					ok = len(d.T) == 0 && d.K == 1
				}
				c.Result(ok, rule+".shape", "stableTo drops the prefix up to id.index", fnName(stableTo), p.site(st.Instr), "entries <- entries[id.index+1-offset:]", "entries <- "+v.Key())
			}
		}
	}
	// callers of raftLog.stableTo: only Step's MsgStorageAppendResp arm, never from the lower-term arm
	lStableTo := p.Method("raft", "raftLog", "stableTo")
	step := p.Method("raft", "raft", "Step")
	getType := p.Method("raftpb", "Message", "GetType")
	getTerm := p.Method("raftpb", "Message", "GetTerm")
	getLogTerm := p.Method("raftpb", "Message", "GetLogTerm")
	getIndex := p.Method("raftpb", "Message", "GetIndex")
	termF := p.Field("raft", "raft", "Term")
	sar := p.ConstVal("raftpb", "MsgStorageAppendResp")
	if lStableTo == nil || step == nil {
		return
	}
	for _, cs := range p.CallsTo(lStableTo) {
		cfi := p.Info(cs.Caller)
		site := p.site(cs.Instr)
		if cs.Caller != step {
			c.Bad(rule+".caller", "caller of raftLog.stableTo", fnName(cs.Caller), site, "only raft.Step acknowledges stable entries", "unexpected caller")
			continue
		}
		m := cfi.Sym(step.Params[1])
		r := cfi.Sym(step.Params[0])
		pr := p.Prove(cfi, cs.Instr, []Req{ReqCmp(CallSym(getType, m), "==", constSym(sar))})
		c.Result(pr.OK, rule+".caller", "stableTo under MsgStorageAppendResp", fnName(cs.Caller), site, "m.GetType() == MsgStorageAppendResp", describeProof(pr), pr.Chain...)
		arg := cfi.Sym(callArgs(cs.Instr)[1])
		okArg := FieldOf(arg, eidT).Key() == CallSym(getLogTerm, m).Key() && FieldOf(arg, eidI).Key() == CallSym(getIndex, m).Key()
		c.Result(okArg, rule+".caller", "stableTo argument", fnName(cs.Caller), site, "entryID{term: m.LogTerm, index: m.Index}", "argument "+arg.Key())
		// the arm `m.Term < r.Term` must not reach this call
		lowArm := findArm(cfi, func(a *Atom) bool {
			if a.K != ALe {
				return false
			}
			want := newLin() // m.Term - r.Term + 1 <= 0
			linAdd(want, CallSym(getTerm, m), 1)
			linAdd(want, FieldOf(r, termF), -1)
			want.K = 1
			return linEqual(a.L, want)
		})
		if lowArm < 0 {
			c.Bad(rule+".term", "lower-term arm of Step", fnName(step), p.Pos(step.Pos()), "Step has an arm for m.Term < r.Term", "arm not found")
		} else {
			reach := cfi.ReachableFrom([]int{lowArm}, nil)
			c.Result(!reach[cs.Instr.Block().Index], rule+".term", "stableTo unreachable from the lower-term arm", fnName(step), site, "a stale-term acknowledgement never reaches stableTo", fmt.Sprintf("arm block %d", lowArm))
		}
	}
	// the acknowledgement itself: MsgStorageAppendResp literal
	msgT := p.Type("raftpb", "Message")
	lastEntryID := p.Method("raft", "raftLog", "lastEntryID")
	hasNext := p.Method("raft", "raftLog", "hasNextOrInProgressUnstableEnts")
	n := 0
	for _, lit := range p.Lits(msgT) {
		tc, ok := lit.TypeConsts(p)
		if !ok || len(tc) != 1 || tc[0] != sar {
			continue
		}
		n++
		lfi := p.Info(lit.Fn)
		site := p.site(lit.Alloc)
		t := lit.FieldSym(p, "Term")
		okT := t != nil && t.K == KField && t.Fld == termF
		c.Result(okT, rule+".ack", "MsgStorageAppendResp.Term", fnName(lit.Fn), site, "Term <- r.Term (the term the write was issued in)", fmt.Sprintf("Term <- %v", t))
		for _, key := range []string{"Index", "LogTerm"} {
			sts := lit.Stores[key]
			if len(sts) == 0 {
				c.Bad(rule+".ack", "MsgStorageAppendResp."+key, fnName(lit.Fn), site, key+" <- lastEntryID()", "key never set")
				continue
			}
			for _, st := range sts {
				v := lfi.PointeeOf(st.Val)
				want := eidI
				if key == "LogTerm" {
					want = eidT
				}
				okV := v.K == KField && v.Fld == want && v.Args[0].K == KCall && v.Args[0].Fn == lastEntryID
				c.Result(okV, rule+".ack", "MsgStorageAppendResp."+key, fnName(lit.Fn), p.site(st), key+" <- r.raftLog.lastEntryID()", key+" <- "+v.Key())
				f := lfi.FactsAt(st)
				has := f.HasBool(func(s *Sym) bool { return s.K == KCall && s.Fn == hasNext }, true) != nil
				c.Result(has, rule+".ack", "MsgStorageAppendResp."+key+" only with unstable entries", fnName(lit.Fn), p.site(st), "under hasNextOrInProgressUnstableEnts()", strings.Join(f.Describe(), "; "))
			}
		}
	}
	if n == 0 {
		c.Bad(rule+".ack", "MsgStorageAppendResp literal", "-", "-", "the acknowledgement message is constructed somewhere", "no literal found")
	}
}

// findArm returns the block entered when a branch atom matching pred is true
// (the first such), or -1.
func findArm(fi *FuncInfo, pred func(*Atom) bool) int {
	for _, b := range fi.Fn.Blocks {
		if !fi.Reach[b.Index] || fi.Cut[b.Index] >= 0 {
			continue
		}
		iff, ok := b.Instrs[len(b.Instrs)-1].(*ssa.If)
		if !ok {
			continue
		}
		cs := fi.Sym(iff.Cond)
		for _, pos := range []bool{true, false} {
			as := atomsOf(cs, pos)
			if len(as) == 1 && pred(as[0]) {
				if pos {
					return b.Succs[0].Index
				}
				return b.Succs[1].Index
			}
		}
	}
	return -1
}

// G-APPEND-MATCH — a follower appends only behind a matching (index, term)
// and only from the first mismatch.
func gAppendMatch(c *Check) {
	p := c.P
	const rule = "G-APPEND-MATCH"
	maybeAppend := p.Method("raft", "raftLog", "maybeAppend")
	lappend := p.Method("raft", "raftLog", "append")
	matchTerm := p.Method("raft", "raftLog", "matchTerm")
	findConflict := p.Method("raft", "raftLog", "findConflict")
	hae := p.Method("raft", "raft", "handleAppendEntries")
	fromMsg := p.Func("raft", "logSliceFromMsgApp")
	prevF := p.Field("raft", "logSlice", "prev")
	entsF := p.Field("raft", "logSlice", "entries")
	eidT := p.Field("raft", "entryID", "term")
	eidI := p.Field("raft", "entryID", "index")
	if maybeAppend == nil || lappend == nil || matchTerm == nil || findConflict == nil || hae == nil || fromMsg == nil {
		return
	}
	fi := p.Info(maybeAppend)
	l := fi.Sym(maybeAppend.Params[0])
	a := fi.Sym(maybeAppend.Params[1])
	prev := FieldOf(a, prevF)
	n := 0
	for _, ci := range p.CallsIn(maybeAppend, lappend) {
		n++
		site := p.site(ci)
		pr := p.Prove(fi, ci, []Req{ReqBool(CallSym(matchTerm, l, prev), true)})
		c.Result(pr.OK, rule+".prev", "append in maybeAppend guarded by matchTerm(prev)", fnName(maybeAppend), site, "l.matchTerm(a.prev)", describeProof(pr), pr.Chain...)
		arg := fi.Sym(callArgs(ci)[1])
		ok := false
		detail := "argument " + arg.Key()
		if arg.K == KSlice && arg.Args[0].Key() == FieldOf(a, entsF).Key() && arg.Args[2].K == KNil {
			// low = ci - (prev.index+1), ci <- findConflict(a.entries)
			low := LinOf(arg.Args[1])
			var ciSym *Sym
			for _, s := range low.S {
				if s.K == KCall && s.Fn == findConflict {
					ciSym = s
				}
			}
			if ciSym != nil && ciSym.Args[1].Key() == FieldOf(a, entsF).Key() {
				want := newLin()
				linAdd(want, ciSym, 1)
				linAdd(want, FieldOf(prev, eidI), -1)
				want.K = -1
				ok = linEqual(low, want)
			}
		}
		c.Result(ok, rule+".from", "append argument in maybeAppend", fnName(maybeAppend), site, "a.entries[ci-(a.prev.index+1):] with ci <- findConflict(a.entries)", detail)
	}
	if n == 0 {
		c.Bad(rule+".prev", "append call in maybeAppend", fnName(maybeAppend), p.Pos(maybeAppend.Pos()), "maybeAppend appends through raftLog.append", "no call")
	}
	// findConflict returns id.index only under !matchTerm(id), 0 otherwise
	ffi := p.Info(findConflict)
	pbEntryID := p.Func("raft", "pbEntryID")
	for _, r := range returnsOf(ffi) {
		v := ffi.Sym(r.Results[0])
		site := p.site(r)
		if v.K == KConst {
			c.Result(v.C != nil && v.C.String() == "0", rule+".conflict", "findConflict no-conflict return", fnName(findConflict), site, "returns 0 when every entry matches", "returns "+v.Key())
			continue
		}
		okShape := v.K == KField && v.Fld == eidI && v.Args[0].K == KCall && v.Args[0].Fn == pbEntryID
		f := ffi.FactsAt(r)
		guarded := false
		if okShape {
			guarded = f.HasBool(func(s *Sym) bool {
				return s.K == KCall && s.Fn == matchTerm && len(s.Args) == 2 && s.Args[1].Key() == v.Args[0].Key()
			}, false) != nil
		}
		c.Result(okShape && guarded, rule+".conflict", "findConflict conflict return", fnName(findConflict), site, "returns id.index of the first entry with !matchTerm(id)", fmt.Sprintf("returns %s under {%s}", v, strings.Join(f.Describe(), "; ")))
	}
	// the scan starts at the first entry and proceeds in order (range over ents)
	// callers of maybeAppend
	for _, cs := range p.CallsTo(maybeAppend) {
		site := p.site(cs.Instr)
		if cs.Caller != hae {
			c.Bad(rule+".caller", "caller of raftLog.maybeAppend", fnName(cs.Caller), site, "only handleAppendEntries", "unexpected caller")
			continue
		}
		cfi := p.Info(cs.Caller)
		arg := cfi.Sym(callArgs(cs.Instr)[1])
		ok := arg.K == KCall && arg.Fn == fromMsg && arg.Args[0].Key() == cfi.Sym(hae.Params[1]).Key()
		c.Result(ok, rule+".caller", "maybeAppend argument", fnName(cs.Caller), site, "a <- logSliceFromMsgApp(m)", "a <- "+arg.Key())
	}
	// logSliceFromMsgApp maps prev <- (m.LogTerm, m.Index), entries <- m.Entries
	gfi := p.Info(fromMsg)
	getLogTerm := p.Method("raftpb", "Message", "GetLogTerm")
	getIndex := p.Method("raftpb", "Message", "GetIndex")
	getEntries := p.Method("raftpb", "Message", "GetEntries")
	for _, r := range returnsOf(gfi) {
		v := gfi.Sym(r.Results[0])
		m := gfi.Sym(fromMsg.Params[0])
		pv := FieldOf(v, prevF)
		ok := FieldOf(pv, eidT).Key() == CallSym(getLogTerm, m).Key() &&
			FieldOf(pv, eidI).Key() == CallSym(getIndex, m).Key() &&
			FieldOf(v, entsF).Key() == CallSym(getEntries, m).Key()
		c.Result(ok, rule+".slice", "logSliceFromMsgApp mapping", fnName(fromMsg), p.site(r), "prev <- (m.LogTerm, m.Index), entries <- m.Entries", "returns "+v.Key())
	}
	// callers of handleAppendEntries: MsgApp arms of stepFollower / stepCandidate, never stepLeader
	stepLeader := p.Func("raft", "stepLeader")
	stepFollower := p.Func("raft", "stepFollower")
	stepCandidate := p.Func("raft", "stepCandidate")
	getType := p.Method("raftpb", "Message", "GetType")
	msgApp := p.ConstVal("raftpb", "MsgApp")
	for _, cs := range p.CallsTo(hae) {
		site := p.site(cs.Instr)
		if cs.Caller != stepFollower && cs.Caller != stepCandidate {
			why := "unexpected caller"
			if cs.Caller == stepLeader {
				why = "a leader must never rewrite its own log"
			}
			c.Bad(rule+".role", "caller of handleAppendEntries", fnName(cs.Caller), site, "only the MsgApp arms of stepFollower/stepCandidate", why)
			continue
		}
		cfi := p.Info(cs.Caller)
		m := cfi.Sym(callArgs(cs.Instr)[1])
		pr := p.Prove(cfi, cs.Instr, []Req{ReqCmp(CallSym(getType, m), "==", constSym(msgApp))})
		c.Result(pr.OK, rule+".role", "handleAppendEntries under MsgApp", fnName(cs.Caller), site, "m.GetType() == MsgApp", describeProof(pr), pr.Chain...)
	}
	if stepLeader != nil && p.Reaches(stepLeader, maybeAppend) {
		c.Bad(rule+".role", "stepLeader reaches maybeAppend", fnName(stepLeader), p.Pos(stepLeader.Pos()), "no call path from stepLeader to raftLog.maybeAppend", "path exists")
	} else if stepLeader != nil {
		c.Ok(rule+".role", "stepLeader cannot reach maybeAppend", fnName(stepLeader), p.Pos(stepLeader.Pos()), "no call path from stepLeader to raftLog.maybeAppend", "call graph has no such path")
	}
}

// G-STAMP — entries a leader creates get (its term, last+1+i).
func gStamp(c *Check) {
	p := c.P
	const rule = "G-STAMP"
	appendEntry := p.Method("raft", "raft", "appendEntry")
	lappend := p.Method("raft", "raftLog", "append")
	lastIndex := p.Method("raft", "raftLog", "lastIndex")
	becomeLeader := p.Method("raft", "raft", "becomeLeader")
	stepLeader := p.Func("raft", "stepLeader")
	maybeAppend := p.Method("raft", "raftLog", "maybeAppend")
	bootstrap := p.Method("raft", "RawNode", "Bootstrap")
	termF := p.Field("raft", "raft", "Term")
	eTerm := p.Field("raftpb", "Entry", "Term")
	eIndex := p.Field("raftpb", "Entry", "Index")
	if appendEntry == nil || lappend == nil || lastIndex == nil {
		return
	}
	fi := p.Info(appendEntry)
	r := fi.Sym(appendEntry.Params[0])
	// the appended slice and its stamping
	for _, ci := range p.CallsIn(appendEntry, lappend) {
		site := p.site(ci)
		arg := callArgs(ci)[1]
		okI, why := stampedFromLastIndex(p, fi, arg, lastIndex, eIndex)
		c.Result(okI, rule+".index", "appendEntry stamps Index", fnName(appendEntry), site, "Index <- lastIndex()+1+i for every appended entry", why)
		// the lastIndex() read must not be invalidated before the stamping loop... (KILL)
		okT := false
		whyT := ""
		for _, st := range p.StoresTo(eTerm) {
			if st.Fn != appendEntry || st.Whole {
				continue
			}
			v := fi.PointeeOf(st.Val)
			if v.Key() == FieldOf(r, termF).Key() {
				okT = true
				whyT = fmt.Sprintf("Term <- %s at %s", v, p.site(st.Instr))
			} else {
				okT = false
				whyT = fmt.Sprintf("Term <- %s at %s", v, p.site(st.Instr))
				break
			}
		}
		c.Result(okT, rule+".term", "appendEntry stamps Term", fnName(appendEntry), site, "Term <- r.Term for every appended entry", whyT)
	}
	// stamping happens before anything could move lastIndex: the lastIndex() read
	// used for stamping is not killed before the append call
	for _, st := range p.StoresTo(eIndex) {
		if st.Fn != appendEntry || st.Whole {
			continue
		}
		v := fi.PointeeOf(st.Val)
		var li *Sym
		v.Walk(func(x *Sym) {
			if x.K == KCall && x.Fn == lastIndex {
				li = x
			}
		})
		if li == nil {
			continue
		}
		for _, ci := range p.CallsIn(appendEntry, lappend) {
			k := fi.symKilled(li, st.Instr, ci)
			c.Result(k == nil, rule+".fresh", "lastIndex() read still valid at the append", fnName(appendEntry), p.site(ci), "nothing between reading lastIndex() and appending may change the log", func() string {
				if k != nil {
					return "may be invalidated by " + p.site(k)
				}
				return "no intervening writer"
			}())
		}
	}
	// callers
	for _, cs := range p.CallsTo(appendEntry) {
		ok := cs.Caller == becomeLeader || cs.Caller == stepLeader
		c.Result(ok, rule+".callers", "caller of appendEntry", fnName(cs.Caller), p.site(cs.Instr), "only becomeLeader and stepLeader (MsgProp) create entries", "caller "+fnName(cs.Caller))
	}
	for _, cs := range p.CallsTo(lappend) {
		ok := cs.Caller == appendEntry || cs.Caller == maybeAppend || cs.Caller == bootstrap
		c.Result(ok, rule+".callers", "caller of raftLog.append", fnName(cs.Caller), p.site(cs.Instr), "only appendEntry, maybeAppend and Bootstrap append to the log", "caller "+fnName(cs.Caller))
	}
}

// C04.N — a new leader appends an empty entry of its own term after resetting
// its per-term state.
func c04Noop(c *Check) {
	p := c.P
	becomeLeader := p.Method("raft", "raft", "becomeLeader")
	appendEntry := p.Method("raft", "raft", "appendEntry")
	reset := p.Method("raft", "raft", "reset")
	entryT := p.Type("raftpb", "Entry")
	if becomeLeader == nil || appendEntry == nil || reset == nil {
		return
	}
	fi := p.Info(becomeLeader)
	n := 0
	for _, ci := range p.CallsIn(becomeLeader, appendEntry) {
		n++
		site := p.site(ci)
		okMust := mustPass(fi, ci)
		okOrder := false
		for _, rc := range p.CallsIn(becomeLeader, reset) {
			if fi.InstrDominates(rc, ci) {
				okOrder = true
			}
		}
		c.Result(okMust && okOrder, "C04.N", "becomeLeader appends its no-op", fnName(becomeLeader), site, "appendEntry is called on every path, after reset", fmt.Sprintf("mustPass=%v afterReset=%v", okMust, okOrder))
		// the argument is a fresh entry without payload or type
		_, elems, spread, ok := variadicArgs(ci)
		okLit := ok && spread == nil && len(elems) == 1
		detail := ""
		if okLit {
			al, isAl := elems[0].(*ssa.Alloc)
			okLit = isAl
			for _, lit := range p.Lits(entryT) {
				if isAl && lit.Alloc == al {
					for k, v := range lit.Fields {
						s := fi.Sym(v)
						if k == "Data" && s.K == KNil {
							continue
						}
						okLit = false
						detail += k + " set; "
					}
				}
			}
		}
		c.Result(okLit, "C04.N", "no-op entry is empty", fnName(becomeLeader), site, "a fresh pb.Entry with no Data and no Type (EntryNormal)", detail)
	}
	c.Result(n == 1, "C04.N", "becomeLeader appends exactly one entry", fnName(becomeLeader), p.Pos(becomeLeader.Pos()), "one appendEntry call", fmt.Sprint(n))
}

// variadicArgs decomposes the last (variadic) argument of a call.
func variadicArgs(ci ssa.CallInstruction) (base ssa.Value, elems []ssa.Value, spread ssa.Value, ok bool) {
	args := callArgs(ci)
	if len(args) == 0 {
		return nil, nil, nil, false
	}
	last := args[len(args)-1]
	if sl, isSl := last.(*ssa.Slice); isSl {
		if al, isAl := sl.X.(*ssa.Alloc); isAl {
			for _, ref := range *al.Referrers() {
				if ia, ok := ref.(*ssa.IndexAddr); ok {
					for _, r2 := range *ia.Referrers() {
						if st, ok := r2.(*ssa.Store); ok && st.Addr == ia {
							elems = append(elems, st.Val)
						}
					}
				}
			}
			return nil, elems, nil, true
		}
	}
	return nil, nil, last, true
}
