package main

// Exceptions (DESIGN §3.4): sites that are correct for a reason outside the
// code. Each entry is narrower than one symbol: rule + construct + enclosing
// function. An entry that matches nothing fails the run ("stale exception").
type Exception struct {
	Rule, Construct, Func string
	Reason                string
	Props                 []string // properties whose checks may generate the obligation
}

var exceptions = []Exception{
	{Rule: "G-COMMIT-MONO", Construct: "store raftLog.committed", Func: "(*raft.RawNode).Bootstrap",
		Reason: "Bootstrap returns an error unless Storage.LastIndex()==0, i.e. Storage is empty and committed is 0 (Storage contract, not a code fact)",
		Props:  []string{"C01", "C06", "C07"}},
	{Rule: "G-COMMIT-BOUND", Construct: "store raftLog.committed", Func: "(*raft.RawNode).Bootstrap",
		Reason: "Bootstrap appends exactly len(ents) entries to the empty log immediately before committing them; the append's effect on lastIndex is a value fact outside the engine",
		Props:  []string{"C06"}},
	{Rule: "C07.T", Construct: "term argument of becomeFollower: $m.GetTerm()", Func: "raft.stepCandidate",
		Reason: "the three MsgApp/MsgHeartbeat/MsgSnap arms of stepCandidate: Step's preamble leaves m.Term == 0 || m.Term == r.Term here; that these message types always carry the sender's (non-zero) term is the sender-side obligation C07.S plus the property's own premise that the network only delivers messages raft nodes sent",
		Props:  []string{"C07"}},
	{Rule: "C07.T", Construct: "term argument of becomeFollower: 1", Func: "(*raft.RawNode).Bootstrap",
		Reason: "Bootstrap requires an empty Storage (LastIndex()==0 check above), i.e. a node that has never had a term; contract fact",
		Props:  []string{"C07"}},
	{Rule: "C19.M", Construct: "range over map local[nil:nil:nil][(phi+1)]", Func: "confchange.checkInvariants",
		Reason: "the early return is an error whose *text* names the first offending id in map order; callers only test err != nil (Changer returns it, raft panics on it); no Ready content depends on the text",
		Props:  []string{"C19"}},
	{Rule: "C19.M", Construct: "range over map $cfg.LearnersNext", Func: "confchange.checkInvariants",
		Reason: "error text only (see above)", Props: []string{"C19"}},
	{Rule: "C19.M", Construct: "range over map $cfg.Learners", Func: "confchange.checkInvariants",
		Reason: "error text only (see above)", Props: []string{"C19"}},
}

func exceptionKey(rule, construct, fn string) string { return rule + " | " + construct + " | " + fn }

func lookupException(o *Obligation) (string, bool) {
	for _, e := range exceptions {
		if e.Rule == o.Rule && e.Construct == o.Construct && e.Func == o.Func {
			return e.Reason, true
		}
	}
	return "", false
}
