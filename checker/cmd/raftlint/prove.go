package main

import (
	"fmt"
	"strings"

	"golang.org/x/tools/go/ssa"
)

// Req is one required fact at a program point.
type Req struct {
	Kind string // "cmp": A Op B over integers; "bool": symbol A is Pos; "same": A ==/!= B (non-integers)
	A, B *Sym
	Op   string
	Pos  bool
	Desc string
}

func ReqCmp(a *Sym, op string, b *Sym) Req {
	return Req{Kind: "cmp", A: a, B: b, Op: op, Desc: fmt.Sprintf("%s %s %s", a, op, b)}
}
func ReqBool(a *Sym, pos bool) Req {
	d := a.Key()
	if !pos {
		d = "!" + d
	}
	return Req{Kind: "bool", A: a, Pos: pos, Desc: d}
}
func ReqSame(a *Sym, eq bool, b *Sym) Req {
	op := "=="
	if !eq {
		op = "!="
	}
	return Req{Kind: "same", A: a, B: b, Pos: eq, Desc: fmt.Sprintf("%s %s %s", a, op, b)}
}

func (r Req) subst(m map[ssa.Value]*Sym) Req {
	n := r
	n.A = resimplify(Subst(r.A, m))
	if r.B != nil {
		n.B = resimplify(Subst(r.B, m))
	}
	n.Desc = ""
	switch n.Kind {
	case "cmp":
		n.Desc = fmt.Sprintf("%s %s %s", n.A, n.Op, n.B)
	case "bool":
		n.Desc = n.A.Key()
		if !n.Pos {
			n.Desc = "!" + n.Desc
		}
	case "same":
		op := "=="
		if !n.Pos {
			op = "!="
		}
		n.Desc = fmt.Sprintf("%s %s %s", n.A, op, n.B)
	}
	return n
}

// resimplify re-applies literal field projection after substitution.
func resimplify(s *Sym) *Sym {
	if s == nil || len(s.Args) == 0 {
		return s
	}
	changed := false
	args := make([]*Sym, len(s.Args))
	for i, a := range s.Args {
		args[i] = resimplify(a)
		if args[i] != a {
			changed = true
		}
	}
	if changed {
		cp := *s
		cp.Args = args
		cp.key = ""
		s = &cp
	}
	if s.K == KDeref && s.Args[0].K == KAddr {
		return s.Args[0].Args[0]
	}
	return simplifyField(s)
}

// holds evaluates a requirement against a fact set.
func (f *Facts) holds(r Req) bool {
	switch r.Kind {
	case "cmp":
		return f.ImpliesCmp(r.A, r.Op, r.B)
	case "bool":
		if r.A.K == KConst && r.A.C != nil {
			return r.A.C.String() == fmt.Sprint(r.Pos)
		}
		if r.A.K == KNot {
			return f.holds(Req{Kind: "bool", A: r.A.Args[0], Pos: !r.Pos})
		}
		// a comparison expressed as boolean symbol
		if r.A.K == KBin {
			ok := true
			as := atomsOf(r.A, r.Pos)
			if len(as) == 0 {
				return false
			}
			for _, a := range as {
				switch a.K {
				case ALe:
					ok = ok && f.ImpliesLe(a.L)
				case AEq:
					n := newLin()
					n.add(a.L, -1)
					ok = ok && f.ImpliesLe(a.L) && f.ImpliesLe(n)
				case ASame:
					ok = ok && f.HasSame(isKey(a.S.Key()), isKey(a.S2.Key()), !a.Neg) != nil
				default:
					ok = false
				}
			}
			return ok
		}
		if f.HasBool(isKey(r.A.Key()), r.Pos) != nil {
			return true
		}
		// a pure boolean helper: its body, when that is a conjunction of literals under this polarity
		if r.A.K == KCall && r.A.Fn != nil && curProg != nil && curProg.helperBF(r.A.Fn) != nil && f.depth < 3 {
			spec := atomBF(r.A, r.Pos)
			lits, complete := conjLiterals(spec, true)
			if !complete || len(lits) == 0 {
				return false
			}
			f.depth++
			defer func() { f.depth-- }()
			for _, lt := range lits {
				if lt.atom.Src == nil || lt.atom.Src.Key() == r.A.Key() {
					return false
				}
				if !f.holds(Req{Kind: "bool", A: lt.atom.Src, Pos: lt.atom.SrcPos == lt.pos}) {
					return false
				}
			}
			return true
		}
		return false
	case "same":
		if f.HasSame(isKey(r.A.Key()), isKey(r.B.Key()), r.Pos) != nil {
			return true
		}
		if !r.Pos {
			// A == c1 known and B is a different constant
			return false
		}
		return false
	}
	return false
}

// Proof is the outcome of Prove.
type Proof struct {
	OK        bool
	Undecided bool
	Chain     []string
}

const liftDepth = 3

// Prove tries to establish all reqs at instruction `at` of fi, lifting
// unproved ones to all call sites up to liftDepth (DESIGN §2.2 Lifting).
func (p *Prog) Prove(fi *FuncInfo, at ssa.Instruction, reqs []Req) Proof {
	var pr Proof
	pr.OK = true
	for _, r := range reqs {
		ok, chain := p.prove1(fi, at, r, liftDepth, map[*ssa.Function]bool{})
		pr.Chain = append(pr.Chain, chain...)
		if !ok {
			pr.OK = false
		}
	}
	return pr
}

func (p *Prog) prove1(fi *FuncInfo, at ssa.Instruction, r Req, depth int, visiting map[*ssa.Function]bool) (bool, []string) {
	facts := fi.FactsAt(at)
	if facts.holds(r) {
		var used []string
		for _, a := range facts.Atoms {
			used = append(used, a.String())
		}
		return true, []string{fmt.Sprintf("%s: `%s` holds at %s by guards {%s}", shortFn(fi.Fn), r.Desc, p.InstrPos(at), strings.Join(used, "; "))}
	}
	if depth == 0 {
		return false, []string{fmt.Sprintf("%s: `%s` not established at %s (lifting depth exhausted); facts {%s}", shortFn(fi.Fn), r.Desc, p.InstrPos(at), strings.Join(facts.Describe(), "; "))}
	}
	if visiting[fi.Fn] {
		return false, []string{fmt.Sprintf("%s: recursive lifting", shortFn(fi.Fn))}
	}
	// the requirement must be expressible in terms of parameters (and pure state)
	// and nothing between entry and `at` may overwrite what it reads.
	locs := map[Loc]bool{}
	for _, s := range []*Sym{r.A, r.B} {
		if s == nil {
			continue
		}
		for l := range p.symLocsStructural(s) {
			locs[l] = true
		}
		for l := range p.symReadLocs(s) {
			locs[l] = true
		}
	}
	expandDeref(locs)
	if k := p.Killed(fi.EntryTo(at), locs, nil); k != nil {
		return false, []string{fmt.Sprintf("%s: `%s` not established at %s and cannot be lifted: %s may overwrite it before the use; facts {%s}", shortFn(fi.Fn), r.Desc, p.InstrPos(at), p.InstrPos(k), strings.Join(facts.Describe(), "; "))}
	}
	hasLocal := false
	for _, s := range []*Sym{r.A, r.B} {
		if s == nil {
			continue
		}
		s.Walk(func(x *Sym) {
			switch x.K {
			case KPhi, KOpaque, KAlloc:
				hasLocal = true
			case KCall:
				if x.Idx == -1 {
					hasLocal = true
				}
			}
		})
	}
	if hasLocal {
		return false, []string{fmt.Sprintf("%s: `%s` not established at %s; it involves local values and cannot be lifted; facts {%s}", shortFn(fi.Fn), r.Desc, p.InstrPos(at), strings.Join(facts.Describe(), "; "))}
	}
	visiting[fi.Fn] = true
	defer delete(visiting, fi.Fn)
	// closures: lift to the creation site (free variables) – parameters stay
	if fi.Fn.Parent() != nil {
		usesParam := false
		for _, s := range []*Sym{r.A, r.B} {
			if s != nil {
				s.Walk(func(x *Sym) {
					if x.K == KParam {
						usesParam = true
					}
				})
			}
		}
		if usesParam {
			return false, []string{fmt.Sprintf("%s: `%s` not established at %s; closure parameters cannot be lifted", shortFn(fi.Fn), r.Desc, p.InstrPos(at))}
		}
		parent := fi.Fn.Parent()
		pfi := p.Info(parent)
		var chain []string
		n := 0
		for _, in := range p.liveInstrsOf(parent) {
			mc, ok := in.(*ssa.MakeClosure)
			if !ok || mc.Fn != fi.Fn {
				continue
			}
			n++
			m := map[ssa.Value]*Sym{}
			for i, fv := range fi.Fn.FreeVars {
				b := pfi.Sym(mc.Bindings[i])
				// captured variables are bound by address: *fv is the variable
				if b.K == KAlloc {
					if sv := pfi.singleStore(b.V); sv != nil {
						b = &Sym{K: KAddr, Args: []*Sym{pfi.Sym(sv)}}
					}
				}
				m[fv] = b
			}
			ok2, ch := p.prove1(pfi, mc, r.subst(m), depth-1, visiting)
			chain = append(chain, ch...)
			if !ok2 {
				return false, append([]string{fmt.Sprintf("%s: lifted to closure creation in %s", shortFn(fi.Fn), shortFn(parent))}, chain...)
			}
		}
		if n == 0 {
			return false, []string{fmt.Sprintf("%s: no creation site found", shortFn(fi.Fn))}
		}
		return true, append([]string{fmt.Sprintf("%s: `%s` lifted to %d closure creation site(s)", shortFn(fi.Fn), r.Desc, n)}, chain...)
	}
	sites := p.CallsTo(fi.Fn)
	if len(sites) == 0 {
		return false, []string{fmt.Sprintf("%s: `%s` not established at %s and the function has no callers to lift to (API entry); facts {%s}", shortFn(fi.Fn), r.Desc, p.InstrPos(at), strings.Join(facts.Describe(), "; "))}
	}
	var chain []string
	for _, cs := range sites {
		cfi := p.Info(cs.Caller)
		if !cfi.Live(cs.Instr) {
			continue
		}
		args := callArgs(cs.Instr)
		m := map[ssa.Value]*Sym{}
		if cs.Instr.Common().IsInvoke() || len(args) != len(fi.Fn.Params) {
			// dynamic call through a function value: parameters map positionally when counts agree
			if len(cs.Instr.Common().Args) == len(fi.Fn.Params) {
				args = cs.Instr.Common().Args
			} else {
				return false, []string{fmt.Sprintf("%s: call at %s has unexpected arity", shortFn(fi.Fn), p.InstrPos(cs.Instr))}
			}
		}
		for i, prm := range fi.Fn.Params {
			m[prm] = cfi.Sym(args[i])
		}
		ok, ch := p.prove1(cfi, cs.Instr, r.subst(m), depth-1, visiting)
		chain = append(chain, ch...)
		if !ok {
			return false, append([]string{fmt.Sprintf("%s: `%s` lifted to caller %s at %s: FAILED", shortFn(fi.Fn), r.Desc, shortFn(cs.Caller), p.InstrPos(cs.Instr))}, chain...)
		}
	}
	return true, append([]string{fmt.Sprintf("%s: `%s` lifted to %d call site(s)", shortFn(fi.Fn), r.Desc, len(sites))}, chain...)
}
