package main

import (
	"fmt"
	"go/types"
	"strings"

	"golang.org/x/tools/go/ssa"
)

// C10.G — the propose-time gate for configuration changes.
func c10Gate(c *Check) {
	p := c.P
	stepLeader := p.Func("raft", "stepLeader")
	pendingF := p.Field("raft", "raft", "pendingConfIndex")
	appliedF := p.Field("raft", "raftLog", "applied")
	_ = p.Field("raft", "raftLog", "committed")
	raftLogF := p.Field("raft", "raft", "raftLog")
	trkF := p.Field("raft", "raft", "trk")
	cfgF := p.Field("tracker", "ProgressTracker", "Config")
	votersF := p.Field("tracker", "Config", "Voters")
	disableF := p.Field("raft", "raft", "disableConfChangeValidation")
	changesF := p.Field("raftpb", "ConfChangeV2", "Changes")
	lastIndex := p.Method("raft", "raftLog", "lastIndex")
	entryT := p.Type("raftpb", "Entry")
	entryNormal := p.ConstVal("raftpb", "EntryNormal")
	if stepLeader == nil || pendingF == nil {
		return
	}
	fi := p.Info(stepLeader)
	r := fi.Sym(stepLeader.Params[0])
	// --- C10.G: the propose-time gate
	pending := bfCmp(FieldOf(r, pendingF), ">", FieldOf(FieldOf(r, raftLogF), appliedF))
	voters1 := &Sym{K: KIndex, Args: []*Sym{FieldOf(FieldOf(FieldOf(r, trkF), cfgF), votersF), constSym(1)}}
	joint := bfCmp(&Sym{K: KBuiltin, Name: "len", Args: []*Sym{voters1}}, ">", constSym(0))
	disable := bfSym(FieldOf(r, disableF))
	// the "wants to leave joint" atom is read from the code: len(<cc>.AsV2().Changes) == 0
	var leave *BF
	for _, b := range stepLeader.Blocks {
		if !fi.Reach[b.Index] {
			continue
		}
		if iff, ok := b.Instrs[len(b.Instrs)-1].(*ssa.If); ok {
			cs := fi.Sym(iff.Cond)
			found := false
			cs.Walk(func(x *Sym) {
				if x.K == KField && x.Fld == changesF {
					found = true
				}
			})
			if found {
				// orient: formula for len(changes) == 0
				var ch *Sym
				cs.Walk(func(x *Sym) {
					if x.K == KBuiltin && x.Name == "len" && x.Args[0].K == KField && x.Args[0].Fld == changesF {
						ch = x
					}
				})
				if ch != nil {
					leave = bfCmp(ch, "==", constSym(0))
				}
			}
		}
	}
	if leave == nil {
		// the tests may sit in a helper: look through the inlined formulas of the branch conditions
		for _, b := range stepLeader.Blocks {
			if !fi.Reach[b.Index] || leave != nil {
				continue
			}
			iff, ok := b.Instrs[len(b.Instrs)-1].(*ssa.If)
			if !ok {
				continue
			}
			am := map[string]*BAtom{}
			fi.valueBF(iff.Cond, 0).atoms(am)
			for _, a := range am {
				if a.Src == nil || leave != nil {
					continue
				}
				var ch *Sym
				a.Src.Walk(func(x *Sym) {
					if x.K == KBuiltin && x.Name == "len" && len(x.Args) == 1 && x.Args[0].K == KField && x.Args[0].Fld == changesF {
						ch = x
					}
				})
				if ch != nil {
					leave = bfCmp(ch, "==", constSym(0))
				}
			}
		}
	}
	nStores := 0
	for _, st := range p.StoresTo(pendingF) {
		if st.Fn != stepLeader || st.Whole {
			continue
		}
		nStores++
		site := p.site(st.Instr)
		if leave == nil {
			c.Bad("C10.G", "conf-change gate atoms", fnName(stepLeader), site, "the gate tests pending / joint / leave-joint", "no test of len(cc.AsV2().Changes) found")
			continue
		}
		failed := bfOr(pending, bfAnd(joint, bfNot(leave)), bfAnd(bfNot(joint), leave))
		spec := bfOr(bfNot(failed), disable)
		ok, und, detail := fi.pathsImply(st.Instr, -1, spec)
		req := "accepted conf change: !(pendingConfIndex > applied || (joint && !leave) || (!joint && leave)) || validation disabled"
		if und {
			c.Undecided("C10.G", "accept conf-change proposal (pendingConfIndex store)", fnName(stepLeader), site, req, detail)
		} else {
			c.Result(ok, "C10.G", "accept conf-change proposal (pendingConfIndex store)", fnName(stepLeader), site, req, detail)
		}
		// the recorded index is the position the entry will get: lastIndex()+i+1,
		// with i the position of the entry being examined (the index used to read m.Entries[i])
		v := fi.Sym(st.Val)
		var pos *Sym
		for _, in := range p.liveInstrsOf(stepLeader) {
			ld, ok := in.(*ssa.UnOp)
			if !ok {
				continue
			}
			if ia, ok := ld.X.(*ssa.IndexAddr); ok {
				cont := fi.Sym(ia.X)
				if cont.K == KCall && cont.Fn != nil && cont.Fn.Name() == "GetEntries" && fi.InstrDominates(ld, st.Instr) {
					pos = fi.Sym(ia.Index)
				}
			}
		}
		okIdx := false
		if pos != nil {
			l := LinOf(v)
			l.add(LinOf(pos), -1)
			okIdx = l.K == 1 && len(l.T) == 1
			for k, s := range l.S {
				if !(s.K == KCall && s.Fn == lastIndex && l.T[k] == 1) {
					okIdx = false
				}
			}
		}
		c.Result(okIdx, "C10.G", "pendingConfIndex value", fnName(stepLeader), site, "pendingConfIndex <- lastIndex()+i+1 (the index the proposal will occupy; i = position in m.Entries)", v.Key())
	}
	c.Result(nStores >= 1, "C10.G", "stepLeader records accepted conf changes", fnName(stepLeader), p.Pos(stepLeader.Pos()), "one pendingConfIndex store on the accept path", fmt.Sprint(nStores))
	// neutralised proposals: the only store into m.Entries[i] is a literal with just Type: EntryNormal
	nElem := 0
	for _, in := range p.liveInstrsOf(stepLeader) {
		st, ok := in.(*ssa.Store)
		if !ok {
			continue
		}
		ia, ok := st.Addr.(*ssa.IndexAddr)
		if !ok {
			continue
		}
		cont := fi.Sym(ia.X)
		if !(cont.K == KCall && cont.Fn != nil && cont.Fn.Name() == "GetEntries") {
			continue
		}
		nElem++
		okLit := false
		detail := ""
		if al, ok := st.Val.(*ssa.Alloc); ok {
			for _, lit := range p.Lits(entryT) {
				if lit.Alloc != al {
					continue
				}
				tc, okT := lit.TypeConsts(p)
				keys := []string{}
				for k := range lit.Fields {
					keys = append(keys, k)
				}
				okLit = okT && len(tc) == 1 && tc[0] == entryNormal && len(keys) == 1
				detail = fmt.Sprintf("keys %v type %v", keys, tc)
			}
		}
		c.Result(okLit, "C10.G", "neutralised conf-change proposal", fnName(stepLeader), p.site(st), "replaced by an entry with only Type: EntryNormal (no payload)", detail)
		// only an entry that is itself a configuration change is ever neutralised
		if ia, ok := st.Addr.(*ssa.IndexAddr); ok {
			getTypeE := p.Method("raftpb", "Entry", "GetType")
			elem := &Sym{K: KIndex, Args: []*Sym{fi.Sym(ia.X), fi.Sym(ia.Index)}}
			et := CallSym(getTypeE, elem)
			specT := bfOr(bfCmp(et, "==", constSym(p.ConstVal("raftpb", "EntryConfChange"))), bfCmp(et, "==", constSym(p.ConstVal("raftpb", "EntryConfChangeV2"))))
			okT, undT, detT := fi.pathsImplyOpt(st, -1, specT, true)
			if undT {
				c.Undecided("C10.G", "only conf-change entries are neutralised", fnName(stepLeader), p.site(st), "m.Entries[i].Type is EntryConfChange or EntryConfChangeV2 on every path to the rewrite", detT)
			} else {
				c.Result(okT, "C10.G", "only conf-change entries are neutralised", fnName(stepLeader), p.site(st), "m.Entries[i].Type is EntryConfChange or EntryConfChangeV2 on every path to the rewrite (ordinary proposals in the same batch keep their payload)", detT)
			}
		}
		// and only on the rejecting path: failed check and validation enabled
		if leave != nil {
			failed := bfOr(pending, bfAnd(joint, bfNot(leave)), bfAnd(bfNot(joint), leave))
			ok, und, detail := fi.pathsImply(st, -1, bfAnd(failed, bfNot(disable)))
			if und {
				c.Undecided("C10.G", "neutralisation only for failed checks", fnName(stepLeader), p.site(st), "failed check && validation enabled", detail)
			} else {
				c.Result(ok, "C10.G", "neutralisation only for failed checks", fnName(stepLeader), p.site(st), "failed check && validation enabled", detail)
			}
		}
	}
	c.Result(nElem >= 1, "C10.G", "rewrite site of proposed entries", fnName(stepLeader), p.Pos(stepLeader.Pos()), "one store into m.Entries[i]", fmt.Sprint(nElem))

}

// C10 — membership changes are serialized.
func c10ConfChange(c *Check) {
	c10Gate(c)
	p := c.P
	stepLeader := p.Func("raft", "stepLeader")
	pendingF := p.Field("raft", "raft", "pendingConfIndex")
	appliedF := p.Field("raft", "raftLog", "applied")
	_ = p.Field("raft", "raftLog", "committed")
	raftLogF := p.Field("raft", "raft", "raftLog")
	trkF := p.Field("raft", "raft", "trk")
	cfgF := p.Field("tracker", "ProgressTracker", "Config")
	votersF := p.Field("tracker", "Config", "Voters")
	disableF := p.Field("raft", "raft", "disableConfChangeValidation")
	changesF := p.Field("raftpb", "ConfChangeV2", "Changes")
	lastIndex := p.Method("raft", "raftLog", "lastIndex")
	entryT := p.Type("raftpb", "Entry")
	entryNormal := p.ConstVal("raftpb", "EntryNormal")
	if stepLeader == nil || pendingF == nil {
		return
	}
	_, _, _, _, _, _, _, _ = appliedF, raftLogF, trkF, votersF, disableF, changesF, entryT, entryNormal
	// --- C10.N: a new leader assumes its whole log may contain an unapplied change
	becomeLeader := p.Method("raft", "raft", "becomeLeader")
	reset := p.Method("raft", "raft", "reset")
	appendEntry := p.Method("raft", "raft", "appendEntry")
	if becomeLeader != nil {
		bfi := p.Info(becomeLeader)
		var stI ssa.Instruction
		okV := false
		for _, st := range p.StoresTo(pendingF) {
			if st.Fn == becomeLeader && !st.Whole {
				v := bfi.Sym(st.Val)
				okV = v.K == KCall && v.Fn == lastIndex
				stI = st.Instr
			}
		}
		okOrder := stI != nil
		if stI != nil {
			for _, ci := range p.CallsIn(becomeLeader, reset) {
				okOrder = okOrder && bfi.InstrDominates(ci, stI)
			}
			n := 0
			for _, ci := range p.CallsIn(becomeLeader, appendEntry) {
				n++
				okOrder = okOrder && bfi.InstrDominates(stI, ci)
			}
			okOrder = okOrder && n > 0 && mustPass(bfi, stI)
		}
		c.Result(okV && okOrder, "C10.N", "becomeLeader sets pendingConfIndex", fnName(becomeLeader), p.Pos(becomeLeader.Pos()), "pendingConfIndex <- lastIndex() after reset and before the no-op is appended", "")
	}
	c10Hup(c)
	// --- C10.A: one application path
	changerT := p.Type("confchange", "Changer")
	applyCC := p.Method("raft", "raft", "applyConfChange")
	ccRestore := p.Func("confchange", "Restore")
	if changerT != nil {
		for _, name := range []string{"Simple", "EnterJoint", "LeaveJoint"} {
			fn := p.Method("confchange", "Changer", name)
			if fn == nil {
				continue
			}
			for _, cs := range p.CallsTo(fn) {
				top := cs.Caller
				for top.Parent() != nil {
					top = top.Parent()
				}
				ok := calledOnlyFrom(p, top, map[*ssa.Function]bool{applyCC: true, ccRestore: true}, 0)
				c.Result(ok, "C10.A", "caller of Changer."+name, fnName(cs.Caller), p.site(cs.Instr), "configurations change only through applyConfChange or confchange.Restore", "")
			}
		}
	}
	switchTo := p.Method("raft", "raft", "switchToConfig")
	chain := p.Func("confchange", "chain")
	mk := p.Func("tracker", "MakeProgressTracker")
	for _, f := range []*types.Var{cfgF, p.Field("tracker", "ProgressTracker", "Progress")} {
		for _, st := range p.StoresTo(f) {
			if st.Fresh {
				continue
			}
			ok := st.Fn == switchTo || st.Fn == chain || st.Fn == mk
			if st.Whole && !ok {
				v := p.Info(st.Fn).Sym(st.Val)
				ok = v.K == KCall && v.Fn == mk
			}
			c.Result(ok, "C10.A", "store ProgressTracker."+f.Name(), fnName(st.Fn), p.site(st.Instr), "the active configuration is replaced only by switchToConfig (and the Restore chain / constructor)", "")
		}
	}
	// the three-way choice in applyConfChange
	if applyCC != nil {
		leaveJ := p.Method("raftpb", "ConfChangeV2", "LeaveJoint")
		enterJ := p.Method("raftpb", "ConfChangeV2", "EnterJoint")
		for _, an := range applyCC.AnonFuncs {
			afi := p.Info(an)
			for _, name := range []string{"LeaveJoint", "EnterJoint", "Simple"} {
				fn := p.Method("confchange", "Changer", name)
				for _, ci := range p.CallsIn(an, fn) {
					f := afi.FactsAt(ci)
					tested := &Facts{FI: afi, Atoms: f.Tested}
					var ok bool
					switch name {
					case "LeaveJoint":
						ok = tested.HasBool(isCallTo(leaveJ), true) != nil
					case "EnterJoint":
						ok = tested.HasBool(isCallTo(leaveJ), false) != nil && tested.HasBool(func(s *Sym) bool {
							return s.K == KExtract && s.Idx == 1 && s.Args[0].K == KCall && s.Args[0].Fn == enterJ
						}, true) != nil
					case "Simple":
						ok = tested.HasBool(isCallTo(leaveJ), false) != nil && tested.HasBool(func(s *Sym) bool {
							return s.K == KExtract && s.Idx == 1 && s.Args[0].K == KCall && s.Args[0].Fn == enterJ
						}, false) != nil
					}
					c.Result(ok, "C10.A", "applyConfChange selects "+name, fnName(an), p.site(ci), "chosen by cc.LeaveJoint() / cc.EnterJoint()", strings.Join(f.Describe(), "; "))
				}
			}
		}
	}
	c10AutoLeave(c)
	// --- C10.E: transition predicates of ConfChangeV2
	c10Transitions(c)
}

func c10Transitions(c *Check) {
	p := c.P
	leaveJ := p.Method("raftpb", "ConfChangeV2", "LeaveJoint")
	enterJ := p.Method("raftpb", "ConfChangeV2", "EnterJoint")
	getTransition := p.Method("raftpb", "ConfChangeV2", "GetTransition")
	auto := p.ConstVal("raftpb", "ConfChangeTransitionAuto")
	implicit := p.ConstVal("raftpb", "ConfChangeTransitionJointImplicit")
	explicit := p.ConstVal("raftpb", "ConfChangeTransitionJointExplicit")
	if leaveJ == nil || enterJ == nil || getTransition == nil {
		return
	}
	lfi := p.Info(leaveJ)
	cc := lfi.Sym(leaveJ.Params[0])
	for _, ret := range returnsOf(lfi) {
		code := lfi.valueBF(lfi.RetVal(ret, 0), 0)
		// spec: transition == Auto && len(changes) == 0 ; the changes length atom is taken from the code
		var lenSym *Sym
		lfi.RetSym(ret, 0).Walk(func(x *Sym) {
			if x.K == KBuiltin && x.Name == "len" {
				lenSym = x
			}
		})
		if ph, ok := ret.Results[0].(*ssa.Phi); ok {
			for _, e := range ph.Edges {
				lfi.Sym(e).Walk(func(x *Sym) {
					if x.K == KBuiltin && x.Name == "len" {
						lenSym = x
					}
				})
			}
		}
		if lenSym == nil {
			c.Bad("C10.E", "ConfChangeV2.LeaveJoint", fnName(leaveJ), p.site(ret), "transition == Auto && len(changes) == 0", "no length test: "+code.String())
			continue
		}
		spec := bfAnd(bfCmp(CallSym(getTransition, cc), "==", constSym(auto)), bfCmp(lenSym, "==", constSym(0)))
		ok, why := bfEquiv(code, spec)
		c.Result(ok, "C10.E", "ConfChangeV2.LeaveJoint", fnName(leaveJ), p.site(ret), "transition == Auto && len(changes) == 0", code.String()+" "+why)
	}
	// EnterJoint: (autoLeave, ok) by transition x (len>1)
	efi := p.Info(enterJ)
	ecc := efi.Sym(enterJ.Params[0])
	tr := CallSym(getTransition, ecc)
	var lenSym *Sym
	for _, b := range enterJ.Blocks {
		if iff, ok := b.Instrs[len(b.Instrs)-1].(*ssa.If); ok {
			efi.Sym(iff.Cond).Walk(func(x *Sym) {
				if x.K == KBuiltin && x.Name == "len" {
					lenSym = x
				}
			})
		}
	}
	if lenSym == nil {
		// the test may be part of a materialised condition (a named boolean)
		for _, b := range enterJ.Blocks {
			if iff, ok := b.Instrs[len(b.Instrs)-1].(*ssa.If); ok && efi.Reach[b.Index] {
				am := map[string]*BAtom{}
				efi.valueBF(iff.Cond, 0).atoms(am)
				for _, a := range am {
					if a.Src != nil {
						a.Src.Walk(func(x *Sym) {
							if x.K == KBuiltin && x.Name == "len" {
								lenSym = x
							}
						})
					}
				}
			}
		}
	}
	if lenSym == nil {
		c.Bad("C10.E", "ConfChangeV2.EnterJoint", fnName(enterJ), p.Pos(enterJ.Pos()), "joint iff transition != Auto || len(changes) > 1", "no length test")
		return
	}
	allOK := true
	var rows []string
	for _, t := range []int64{auto, implicit, explicit} {
		for _, n := range []int64{0, 1, 2} {
			env := map[string]int64{tr.Key(): t, lenSym.Key(): n}
			okR, ok1, why1 := caseEval(efi, env, 1)
			auR, ok2, why2 := caseEval(efi, env, 0)
			if !ok1 || !ok2 {
				c.Undecided("C10.E", "ConfChangeV2.EnterJoint case analysis", fnName(enterJ), p.Pos(enterJ.Pos()), "9-case table", why1+why2)
				allOK = false
				continue
			}
			gotOK := okR.K == KConst && okR.C != nil && okR.C.String() == "true"
			gotAuto := false
			switch {
			case auR.K == KConst && auR.C != nil:
				gotAuto = auR.C.String() == "true"
			default:
				c.Undecided("C10.E", "ConfChangeV2.EnterJoint autoLeave value", fnName(enterJ), p.Pos(enterJ.Pos()), "autoLeave is a constant on every path", auR.Key())
				allOK = false
			}
			wantOK := t != auto || n > 1
			wantAuto := wantOK && (t == auto || t == implicit)
			rows = append(rows, fmt.Sprintf("(t=%d,n=%d)->(%v,%v)", t, n, gotAuto, gotOK))
			if gotOK != wantOK || (gotOK && gotAuto != wantAuto) {
				allOK = false
				c.Bad("C10.E", "ConfChangeV2.EnterJoint case", fnName(enterJ), p.Pos(enterJ.Pos()), "joint iff transition != Auto || len(changes) > 1; autoLeave iff transition in {Auto, JointImplicit}", fmt.Sprintf("transition %d, %d changes: got (%v,%v) want (%v,%v)", t, n, gotAuto, gotOK, wantAuto, wantOK))
			}
		}
	}
	if allOK {
		c.Ok("C10.E", "ConfChangeV2.EnterJoint 9-case table", fnName(enterJ), p.Pos(enterJ.Pos()), "joint iff transition != Auto || len(changes) > 1", strings.Join(rows, " "))
	}
}

// C10.H — no campaign while a committed configuration change is unapplied.
func c10Hup(c *Check) {
	p := c.P
	appliedF := p.Field("raft", "raftLog", "applied")
	committedF := p.Field("raft", "raftLog", "committed")
	raftLogF := p.Field("raft", "raft", "raftLog")
	// --- C10.H: no campaign with a committed but unapplied change
	hup := p.Method("raft", "raft", "hup")
	campaign := p.Method("raft", "raft", "campaign")
	hasUnapplied := p.Method("raft", "raft", "hasUnappliedConfChanges")
	if hup != nil && campaign != nil && hasUnapplied != nil {
		hfi := p.Info(hup)
		for _, ci := range p.CallsIn(hup, campaign) {
			rr := hfi.Sym(callArgs(ci)[0])
			pr := p.Prove(hfi, ci, []Req{ReqBool(CallSym(hasUnapplied, rr), false)})
			c.Result(pr.OK, "C10.H", "campaign only without unapplied conf changes", fnName(hup), p.site(ci), "!r.hasUnappliedConfChanges()", describeProof(pr), pr.Chain...)
		}
		// other callers of campaign: from a won pre-vote (stepCandidate) only
		for _, cs := range p.CallsTo(campaign) {
			if cs.Caller == hup {
				continue
			}
			ok := cs.Caller == p.Func("raft", "stepCandidate")
			c.Result(ok, "C10.H", "caller of campaign", fnName(cs.Caller), p.site(cs.Instr), "campaign is started by hup, or continued by a pre-candidate that won (which passed hup)", "")
		}
		// the scan covers (applied, committed] and both entry types
		ufi := p.Info(hasUnapplied)
		{
			ur0 := ufi.Sym(hasUnapplied.Params[0])
			for _, ret := range returnsOf(ufi) {
				v := ufi.RetSym(ret, 0)
				if v.K == KConst && v.C != nil && v.C.String() == "false" {
					f := ufi.FactsAt(ret)
					ok := f.ImpliesCmp(FieldOf(FieldOf(ur0, raftLogF), appliedF), ">=", FieldOf(FieldOf(ur0, raftLogF), committedF))
					c.Result(ok, "C10.H", "hasUnappliedConfChanges early 'no'", fnName(hasUnapplied), p.site(ret), "answers false without scanning only when applied >= committed", strings.Join(f.Describe(), "; "))
				}
			}
		}
		scan := p.Method("raft", "raftLog", "scan")
		ur := ufi.Sym(hasUnapplied.Params[0])
		for _, ci := range p.CallsIn(hasUnapplied, scan) {
			args := callArgs(ci)
			lo, hi := ufi.Sym(args[1]), ufi.Sym(args[2])
			dlo := LinOf(lo)
			dlo.add(LinOf(FieldOf(FieldOf(ur, raftLogF), appliedF)), -1)
			dhi := LinOf(hi)
			dhi.add(LinOf(FieldOf(FieldOf(ur, raftLogF), committedF)), -1)
			c.Result(len(dlo.T) == 0 && dlo.K == 1 && len(dhi.T) == 0 && dhi.K == 1, "C10.H", "unapplied scan window", fnName(hasUnapplied), p.site(ci), "scan [applied+1, committed+1)", fmt.Sprintf("[%s, %s)", lo, hi))
		}
		cc1, cc2 := p.ConstVal("raftpb", "EntryConfChange"), p.ConstVal("raftpb", "EntryConfChangeV2")
		seen := map[int64]bool{}
		for _, an := range hasUnapplied.AnonFuncs {
			afi := p.Info(an)
			for _, b := range an.Blocks {
				if iff, ok := b.Instrs[len(b.Instrs)-1].(*ssa.If); ok && afi.Reach[b.Index] {
					for _, a := range atomsOf(afi.Sym(iff.Cond), true) {
						if a.K == AEq && len(a.L.T) == 1 {
							for k, s := range a.L.S {
								if s.K == KCall && s.Fn != nil && s.Fn.Name() == "GetType" {
									seen[-a.L.K*a.L.T[k]] = true
								}
							}
						}
					}
				}
			}
		}
		c.Result(seen[cc1] && seen[cc2], "C10.H", "unapplied scan matches both conf-change entry types", fnName(hasUnapplied), p.Pos(hasUnapplied.Pos()), "EntryConfChange and EntryConfChangeV2", fmt.Sprint(seen))
	}
}

// C10.L — automatic exit from a joint configuration.
func c10AutoLeave(c *Check) {
	p := c.P
	pendingF := p.Field("raft", "raft", "pendingConfIndex")
	// --- C10.L: auto-leave
	rAppliedTo := p.Method("raft", "raft", "appliedTo")
	step := p.Method("raft", "raft", "Step")
	toMsg := p.Func("raft", "confChangeToMsg")
	autoLeaveF := p.Field("tracker", "Config", "AutoLeave")
	stateF := p.Field("raft", "raft", "state")
	leader := p.ConstVal("raft", "StateLeader")
	if rAppliedTo != nil && step != nil && toMsg != nil {
		afi := p.Info(rAppliedTo)
		ar := afi.Sym(rAppliedTo.Params[0])
		n := 0
		for _, ci := range p.CallsIn(rAppliedTo, step) {
			n++
			m := afi.Sym(callArgs(ci)[1])
			okM := m.K == KExtract && m.Idx == 0 && m.Args[0].K == KCall && m.Args[0].Fn == toMsg && m.Args[0].Args[0].K == KNil
			c.Result(okM, "C10.L", "auto-leave proposal", fnName(rAppliedTo), p.site(ci), "Step(confChangeToMsg(nil)): an empty V2 change = leave joint", m.Key())
			f := afi.FactsAt(ci)
			okAuto := f.HasBool(func(s *Sym) bool { return s.K == KField && s.Fld == autoLeaveF }, true) != nil
			okLeader := f.ImpliesCmp(FieldOf(ar, stateF), "==", constSym(leader))
			okApplied := false
			for _, a := range f.Tested {
				if a.K == ALe {
					for k, s := range a.L.S {
						if s.K == KField && s.Fld == pendingF && a.L.T[k] == 1 {
							okApplied = true // pendingConfIndex - newApplied <= 0
						}
					}
				}
			}
			c.Result(okAuto && okLeader && okApplied, "C10.L", "auto-leave only by the leader once the joint change is applied", fnName(rAppliedTo), p.site(ci), "AutoLeave && newApplied >= pendingConfIndex && state == StateLeader", strings.Join(f.Describe(), "; "))
		}
		c.Result(n == 1, "C10.L", "auto-leave edge exists", fnName(rAppliedTo), p.Pos(rAppliedTo.Pos()), "raft.appliedTo proposes the leave-joint change", fmt.Sprint(n))
	}
}

// c15AutoLeaveRetried — C15.L: the leave-joint proposal is attempted on every apply step for which
// AutoLeave && newApplied >= pendingConfIndex && leader holds, under no further condition (the
// proposal can be refused, e.g. while a transfer is pending, and must then be retried by the
// next applied entry; otherwise the group stays joint for ever).
func c15AutoLeaveRetried(c *Check) {
	p := c.P
	rAppliedTo := p.Method("raft", "raft", "appliedTo")
	lAppliedTo := p.Method("raft", "raftLog", "appliedTo")
	step := p.Method("raft", "raft", "Step")
	pendingF := p.Field("raft", "raft", "pendingConfIndex")
	autoLeaveF := p.Field("tracker", "Config", "AutoLeave")
	stateF := p.Field("raft", "raft", "state")
	leader := p.ConstVal("raft", "StateLeader")
	if rAppliedTo == nil || lAppliedTo == nil || step == nil || pendingF == nil || autoLeaveF == nil {
		return
	}
	afi := p.Info(rAppliedTo)
	ar := afi.Sym(rAppliedTo.Params[0])
	var newApplied *Sym
	for _, ci := range p.CallsIn(rAppliedTo, lAppliedTo) {
		newApplied = afi.Sym(callArgs(ci)[1])
	}
	if newApplied == nil {
		c.Bad("C15.L", "auto-leave retried", fnName(rAppliedTo), p.Pos(rAppliedTo.Pos()), "raft.appliedTo advances raftLog's cursor", "no raftLog.appliedTo call")
		return
	}
	for _, ci := range p.CallsIn(rAppliedTo, step) {
		pf, okP := afi.PathFormulaNoAsserts(ci, -1)
		if !okP {
			c.Undecided("C15.L", "auto-leave retried", fnName(rAppliedTo), p.site(ci), "proposed whenever AutoLeave && newApplied >= pendingConfIndex && leader", "path formula too large")
			continue
		}
		// the AutoLeave atom as the code reads it
		var auto *BF
		am := map[string]*BAtom{}
		pf.atoms(am)
		for _, a := range am {
			if a.Src != nil && a.Src.K == KField && a.Src.Fld == autoLeaveF {
				auto = &BF{Op: 'a', Atom: a}
			}
		}
		if auto == nil {
			c.Bad("C15.L", "auto-leave retried", fnName(rAppliedTo), p.site(ci), "proposed whenever AutoLeave && newApplied >= pendingConfIndex && leader", "AutoLeave is not tested")
			continue
		}
		spec := bfAnd(auto, bfCmp(newApplied, ">=", FieldOf(ar, pendingF)), bfCmp(FieldOf(ar, stateF), "==", constSym(leader)))
		ok, why := bfImplies(spec, pf)
		c.Result(ok, "C15.L", "auto-leave retried", fnName(rAppliedTo), p.site(ci), "proposed on every apply step with AutoLeave && newApplied >= pendingConfIndex && state == StateLeader (no further condition)", shorten(why, 300))
	}
}

// calledOnlyFrom: fn is one of the allowed functions, or a helper all of whose call sites sit
// (through at most three levels of helpers) in allowed functions.
func calledOnlyFrom(p *Prog, fn *ssa.Function, allowed map[*ssa.Function]bool, depth int) bool {
	if allowed[fn] {
		return true
	}
	if depth >= 3 || fn.Object() != nil && fn.Object().Exported() {
		return false
	}
	sites := p.CallsTo(fn)
	if len(sites) == 0 {
		return false
	}
	for _, cs := range sites {
		top := cs.Caller
		for top.Parent() != nil {
			top = top.Parent()
		}
		if !calledOnlyFrom(p, top, allowed, depth+1) {
			return false
		}
	}
	return true
}
