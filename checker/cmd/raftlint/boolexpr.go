package main

import (
	"fmt"
	"go/constant"
	"go/token"
	"go/types"
	"sort"
	"strings"

	"golang.org/x/tools/go/ssa"
)

// BF is a boolean formula over canonical atoms (DESIGN §2.2 BOOLEXPR/PATHS).
type BF struct {
	Op   byte // 'a' atom, '&', '|', '!', 'c' const
	Kids []*BF
	Atom *BAtom
	Val  bool
}

// BAtom is a canonical atom; enum-equality atoms on one symbol are mutually
// exclusive in truth tables.
type BAtom struct {
	// Src/SrcPos: the atom is true exactly when boolean symbol Src has value SrcPos
	// (kept so that formulas of helper functions can be re-instantiated at call sites).
	Src     *Sym
	SrcPos  bool
	L       *Lin // for <= atoms: the canonical linear form (L <= 0)
	EqL     *Lin // for == atoms: the canonical linear form (EqL == 0)
	Key     string
	EnumSym string // non-empty for `sym == const` atoms
	EnumVal int64
	Loads   []ssa.Instruction
	If      *ssa.If
}

func bfConst(v bool) *BF { return &BF{Op: 'c', Val: v} }
func bfNot(a *BF) *BF {
	if a.Op == 'c' {
		return bfConst(!a.Val)
	}
	if a.Op == '!' {
		return a.Kids[0]
	}
	return &BF{Op: '!', Kids: []*BF{a}}
}
func bfAnd(xs ...*BF) *BF {
	var ks []*BF
	for _, x := range xs {
		if x.Op == 'c' {
			if !x.Val {
				return bfConst(false)
			}
			continue
		}
		ks = append(ks, x)
	}
	if len(ks) == 0 {
		return bfConst(true)
	}
	if len(ks) == 1 {
		return ks[0]
	}
	return &BF{Op: '&', Kids: ks}
}
func bfOr(xs ...*BF) *BF {
	var ks []*BF
	for _, x := range xs {
		if x.Op == 'c' {
			if x.Val {
				return bfConst(true)
			}
			continue
		}
		ks = append(ks, x)
	}
	if len(ks) == 0 {
		return bfConst(false)
	}
	if len(ks) == 1 {
		return ks[0]
	}
	return &BF{Op: '|', Kids: ks}
}

func (f *BF) String() string {
	switch f.Op {
	case 'c':
		return fmt.Sprint(f.Val)
	case 'a':
		return f.Atom.Key
	case '!':
		return "!(" + f.Kids[0].String() + ")"
	case '&', '|':
		var s []string
		for _, k := range f.Kids {
			s = append(s, k.String())
		}
		return "(" + strings.Join(s, " "+string(f.Op)+string(f.Op)+" ") + ")"
	}
	return "?"
}

func (f *BF) atoms(m map[string]*BAtom) {
	if f.Op == 'a' {
		m[f.Atom.Key] = f.Atom
	}
	for _, k := range f.Kids {
		k.atoms(m)
	}
}

func (f *BF) eval(env map[string]bool) bool {
	switch f.Op {
	case 'c':
		return f.Val
	case 'a':
		return env[f.Atom.Key]
	case '!':
		return !f.Kids[0].eval(env)
	case '&':
		for _, k := range f.Kids {
			if !k.eval(env) {
				return false
			}
		}
		return true
	case '|':
		for _, k := range f.Kids {
			if k.eval(env) {
				return true
			}
		}
		return false
	}
	return false
}

// atomBF turns a symbolic boolean (with polarity) into a formula over
// canonical atoms. Comparisons are canonicalised so that `a<b` and `!(a>=b)`
// share an atom.
func atomBF(s *Sym, pos bool) *BF {
	switch s.K {
	case KCall:
		// pure boolean helpers are represented by their bodies, on both the code and the specification side
		if s.Fn != nil && curProg != nil && inlineDepth < 4 {
			if hf := curProg.helperBF(s.Fn); hf != nil && len(s.Args) == len(s.Fn.Params) {
				m := map[ssa.Value]*Sym{}
				for i, prm := range s.Fn.Params {
					m[prm] = s.Args[i]
				}
				inlineDepth++
				f := substBF(hf, m)
				inlineDepth--
				if !pos {
					return bfNot(f)
				}
				return f
			}
		}
	case KNot:
		return atomBF(s.Args[0], !pos)
	case KConst:
		if s.C != nil {
			return bfConst((s.C.String() == "true") == pos)
		}
	}
	as := atomsOf(s, true)
	if len(as) != 1 {
		a := &BAtom{Key: s.Key(), Loads: allLoads(s), Src: s, SrcPos: true}
		f := &BF{Op: 'a', Atom: a}
		if !pos {
			return bfNot(f)
		}
		return f
	}
	defer func() {}()
	a := as[0]
	var f *BF
	switch a.K {
	case ALe:
		// unsigned x: `x <= 0` is `x == 0`, and `x >= 1` its negation (same atom as the equality test)
		if len(a.L.T) == 1 {
			for k, co := range a.L.T {
				if isUnsignedSym(a.L.S[k]) && (co == 1 && a.L.K == 0 || co == -1 && a.L.K == 1) {
					at := &BAtom{Key: fmt.Sprintf("%s == 0", k), Loads: atomLoads(a), EnumSym: k, EnumVal: 0}
					el := newLin()
					el.T[k] = 1
					el.S[k] = a.L.S[k]
					at.EqL = el
					f = &BF{Op: 'a', Atom: at}
					if co == -1 {
						f = bfNot(f)
					}
				}
			}
		}
		if f != nil {
			break
		}
		// canonical representative of {L<=0, -L+1<=0}
		n := newLin()
		n.add(a.L, -1)
		n.K++
		k1, k2 := a.L.String(), n.String()
		if k1 <= k2 {
			f = &BF{Op: 'a', Atom: &BAtom{Key: k1 + " <= 0", Loads: atomLoads(a), L: a.L}}
		} else {
			f = bfNot(&BF{Op: 'a', Atom: &BAtom{Key: k2 + " <= 0", Loads: atomLoads(a), L: n}})
		}
	case AEq, ANe:
		// canonical sign: make the lexicographically first term positive
		l := a.L
		n := newLin()
		n.add(l, -1)
		key := l.String()
		if n.String() < key {
			key = n.String()
			l = n
		}
		at := &BAtom{Key: key + " == 0", Loads: atomLoads(a), EqL: l}
		if len(l.T) == 1 {
			for k, c := range l.T {
				if c == 1 || c == -1 {
					at.EnumSym = k
					at.EnumVal = -l.K * c
					at.Key = fmt.Sprintf("%s == %d", k, at.EnumVal)
				}
			}
		}
		f = &BF{Op: 'a', Atom: at}
		if a.K == ANe {
			f = bfNot(f)
		}
	case ASame:
		at := &BAtom{Key: a.S.Key() + " == " + a.S2.Key(), Loads: atomLoads(a)}
		f = &BF{Op: 'a', Atom: at}
		if a.Neg {
			f = bfNot(f)
		}
	case ABool:
		at := &BAtom{Key: a.S.Key(), Loads: atomLoads(a)}
		f = &BF{Op: 'a', Atom: at}
		if a.Neg {
			f = bfNot(f)
		}
	}
	// record the source symbol: f (for polarity true) is either the atom or its negation
	if f != nil {
		if f.Op == 'a' && f.Atom.Src == nil {
			f.Atom.Src, f.Atom.SrcPos = s, true
		} else if f.Op == '!' && f.Kids[0].Op == 'a' && f.Kids[0].Atom.Src == nil {
			f.Kids[0].Atom.Src, f.Kids[0].Atom.SrcPos = s, false
		}
	}
	if !pos {
		return bfNot(f)
	}
	return f
}

var inlineDepth int

// substBF re-instantiates a formula under a parameter substitution.
func substBF(f *BF, m map[ssa.Value]*Sym) *BF {
	switch f.Op {
	case 'c':
		return f
	case 'a':
		if f.Atom.Src == nil {
			return f
		}
		return atomBF(resimplify(Subst(f.Atom.Src, m)), f.Atom.SrcPos)
	case '!':
		return bfNot(substBF(f.Kids[0], m))
	case '&', '|':
		ks := make([]*BF, len(f.Kids))
		for i, k := range f.Kids {
			ks[i] = substBF(k, m)
		}
		if f.Op == '&' {
			return bfAnd(ks...)
		}
		return bfOr(ks...)
	}
	return f
}

// helperBF: the boolean formula computed by a pure, loop-free boolean helper
// of the analysed packages, over its own parameters; nil if it is not of that shape.
func (p *Prog) helperBF(fn *ssa.Function) *BF { return p.helperBFMode(fn, false) }

// helperNonEmptyBF: for a pure, loop-free helper returning a string, the formula under which
// the result is non-empty (every return is a string constant or a literal-prefixed Sprintf).
func (p *Prog) helperNonEmptyBF(fn *ssa.Function) *BF {
	if p.helperStrCache == nil {
		p.helperStrCache = map[*ssa.Function]*BF{}
	}
	if f, ok := p.helperStrCache[fn]; ok {
		return f
	}
	p.helperStrCache[fn] = nil
	strMode = true
	f := p.helperBFMode(fn, true)
	strMode = false
	// helperBFMode cached it under the non-nil cache: move it
	delete(p.helperNilCache, fn)
	p.helperStrCache[fn] = f
	return f
}

var strMode bool

// helperNonNilBF: for a pure, loop-free helper returning an interface or pointer, the formula
// (over its parameters) under which the result is non-nil; nil if not of that shape.
func (p *Prog) helperNonNilBF(fn *ssa.Function) *BF { return p.helperBFMode(fn, true) }

func (p *Prog) helperBFMode(fn *ssa.Function, nonNil bool) *BF {
	if p.helperCache == nil {
		p.helperCache = map[*ssa.Function]*BF{}
		p.helperNilCache = map[*ssa.Function]*BF{}
	}
	cache := p.helperCache
	if nonNil {
		cache = p.helperNilCache
	}
	if f, ok := cache[fn]; ok {
		return f
	}
	cache[fn] = nil // recursion guard
	if fn.Blocks == nil || len(fn.Blocks) > 24 || fn.Signature.Results().Len() != 1 {
		return nil
	}
	pk := fnPkg(fn)
	if pk == nil || !isOurPath(pk.Path()) || !p.IsPure(fn) {
		return nil
	}
	if nonNil && strMode {
		if b, ok := fn.Signature.Results().At(0).Type().Underlying().(*types.Basic); !ok || b.Kind() != types.String {
			return nil
		}
	} else if nonNil {
		switch fn.Signature.Results().At(0).Type().Underlying().(type) {
		case *types.Interface, *types.Pointer:
		default:
			return nil
		}
	} else if b, ok := fn.Signature.Results().At(0).Type().Underlying().(*types.Basic); !ok || b.Kind() != types.Bool {
		return nil
	}
	fi := p.Info(fn)
	// loop-free
	for _, b := range fn.Blocks {
		for _, s := range fi.Succs[b.Index] {
			if fi.rpo[s] <= fi.rpo[b.Index] {
				return nil
			}
		}
	}
	isLocal := func(a *BAtom) bool {
		if a.Src == nil {
			return true
		}
		local := false
		a.Src.Walk(func(x *Sym) {
			switch x.K {
			case KPhi, KOpaque, KAlloc:
				local = true
			case KCall:
				if x.Idx == -1 {
					local = true
				}
			}
		})
		return local
	}
	var disj, disjNil []*BF
	for _, ret := range returnsOf(fi) {
		paths, ok := fi.Paths(ret, -1)
		if !ok || len(paths) > 64 {
			return nil
		}
		var val *BF
		isNil := false
		if nonNil {
			rv := fi.RetVal(ret, 0)
			if strMode {
				if k, isK := rv.(*ssa.Const); isK && k.Value != nil && k.Value.Kind() == constant.String {
					isNil = constant.StringVal(k.Value) == ""
				} else if !nonEmptyString(rv) {
					return nil
				}
			} else if k, isK := rv.(*ssa.Const); isK && k.Value == nil {
				isNil = true
			} else if !isNonNilValue(rv) {
				return nil
			}
			val = bfConst(true)
		} else {
			val = fi.valueBF(fi.RetVal(ret, 0), 1)
		}
		for _, pth := range paths {
			c := bfAnd(append(append([]*BF{}, pth...), val)...)
			if isNil {
				disjNil = append(disjNil, c)
			} else {
				disj = append(disj, c)
			}
		}
	}
	f := bfOr(disj...)
	if nonNil {
		// Conditions on callee-local values (an error that leads to a panic) are quantified away on
		// both outcome sets; the weakened "non-nil" formula may stand for the nil test in either
		// polarity only if the two weakened sets stay mutually exclusive (given that the call returned).
		g := bfOr(disjNil...)
		keep := func(a *BAtom) bool { return !isLocal(a) }
		hasLocal := func(h *BF) bool {
			am := map[string]*BAtom{}
			h.atoms(am)
			for _, a := range am {
				if isLocal(a) {
					return true
				}
			}
			return false
		}
		if hasLocal(f) {
			if f = projectBF(f, keep); f == nil {
				return nil
			}
		}
		if hasLocal(g) {
			if g = projectBF(g, keep); g == nil {
				return nil
			}
		}
		if ok, _, tooBig := truthTable([]*BF{f, g}, func(env map[string]bool) bool { return !(f.eval(env) && g.eval(env)) }); !ok || tooBig {
			return nil
		}
	}
	am := map[string]*BAtom{}
	f.atoms(am)
	if len(am) > 8 {
		return nil
	}
	// every atom must be re-instantiable and free of callee-local values
	for _, a := range am {
		if isLocal(a) {
			return nil
		}
	}
	cache[fn] = f
	return f
}

// symBF builds the formula for a boolean symbol, expanding phi nodes of
// short-circuit expressions.
func (fi *FuncInfo) valueBF(v ssa.Value, depth int) *BF {
	if depth == 0 {
		if fi.bfCache == nil {
			fi.bfCache = map[ssa.Value]*BF{}
		}
		if f, ok := fi.bfCache[v]; ok {
			return f
		}
		f := fi.valueBF1(v, depth)
		fi.bfCache[v] = f
		return f
	}
	return fi.valueBF1(v, depth)
}

func (fi *FuncInfo) valueBF1(v ssa.Value, depth int) *BF {
	if depth > 6 {
		return atomBF(fi.Sym(v), true)
	}
	switch x := v.(type) {
	case *ssa.Const:
		if x.Value != nil {
			return bfConst(x.Value.String() == "true")
		}
	case *ssa.UnOp:
		if x.Op.String() == "!" {
			return bfNot(fi.valueBF(x.X, depth+1))
		}
	case *ssa.Phi:
		if f := fi.phiBF(x, depth, nil); f != nil {
			return f
		}
	case *ssa.Call:
		// a pure boolean helper of the repo: use its body instead of an opaque atom
		if callee := x.Common().StaticCallee(); callee != nil && depth < 4 {
			if hf := fi.P.helperBF(callee); hf != nil {
				args := callArgs(x)
				if len(args) == len(callee.Params) {
					m := map[ssa.Value]*Sym{}
					for i, prm := range callee.Params {
						m[prm] = fi.Sym(args[i])
					}
					return substBF(hf, m)
				}
			}
		}
	case *ssa.BinOp:
		// comparison of a merged value with a constant: expand per incoming value
		if x.Op == token.EQL || x.Op == token.NEQ {
			// nil test of a helper's result: use the helper's body
			if call, k := asCallNil(x.X, x.Y); call != nil && depth < 4 {
				if callee := call.Common().StaticCallee(); callee != nil {
					if hf := fi.P.helperNonNilBF(callee); hf != nil {
						args := callArgs(call)
						if len(args) == len(callee.Params) {
							m := map[ssa.Value]*Sym{}
							for i, prm := range callee.Params {
								m[prm] = fi.Sym(args[i])
							}
							f := substBF(hf, m)
							_ = k
							if x.Op == token.EQL {
								return bfNot(f)
							}
							return f
						}
					}
				}
			}
			if call, k := asCallEmptyString(x.X, x.Y); call != nil && depth < 4 {
				if callee := call.Common().StaticCallee(); callee != nil {
					if hf := fi.P.helperNonEmptyBF(callee); hf != nil {
						args := callArgs(call)
						if len(args) == len(callee.Params) {
							m := map[ssa.Value]*Sym{}
							for i, prm := range callee.Params {
								m[prm] = fi.Sym(args[i])
							}
							f := substBF(hf, m)
							_ = k
							if x.Op == token.EQL {
								return bfNot(f)
							}
							return f
						}
					}
				}
			}
			ph, k := asPhiConst(x.X, x.Y)
			if ph != nil {
				eq := x.Op == token.EQL
				f := fi.phiBF(ph, depth, func(e ssa.Value) *BF {
					if ek, ok := e.(*ssa.Const); ok {
						same := ek.Value != nil && k.Value != nil && ek.Value.ExactString() == k.Value.ExactString() || ek.Value == nil && k.Value == nil
						return bfConst(same == eq)
					}
					if nonEmptyString(e) && k.Value != nil && k.Value.ExactString() == `""` {
						return bfConst(!eq)
					}
					if k.Value == nil && isNonNilValue(e) {
						return bfConst(!eq)
					}
					return atomBF(&Sym{K: KBin, Name: x.Op.String(), Args: []*Sym{fi.Sym(e), fi.Sym(k)}}, true)
				})
				if f != nil {
					return f
				}
			}
		}
	}
	return atomBF(fi.Sym(v), true)
}

func asCallNil(a, b ssa.Value) (*ssa.Call, *ssa.Const) {
	if c, ok := a.(*ssa.Call); ok {
		if k, ok := b.(*ssa.Const); ok && k.Value == nil {
			return c, k
		}
	}
	if c, ok := b.(*ssa.Call); ok {
		if k, ok := a.(*ssa.Const); ok && k.Value == nil {
			return c, k
		}
	}
	return nil, nil
}

func asCallEmptyString(a, b ssa.Value) (*ssa.Call, *ssa.Const) {
	isEmpty := func(v ssa.Value) *ssa.Const {
		k, ok := v.(*ssa.Const)
		if ok && k.Value != nil && k.Value.Kind() == constant.String && constant.StringVal(k.Value) == "" {
			return k
		}
		return nil
	}
	if c, ok := a.(*ssa.Call); ok {
		if k := isEmpty(b); k != nil {
			return c, k
		}
	}
	if c, ok := b.(*ssa.Call); ok {
		if k := isEmpty(a); k != nil {
			return c, k
		}
	}
	return nil, nil
}

func asPhiConst(a, b ssa.Value) (*ssa.Phi, *ssa.Const) {
	if ph, ok := a.(*ssa.Phi); ok {
		if k, ok := b.(*ssa.Const); ok {
			return ph, k
		}
	}
	if ph, ok := b.(*ssa.Phi); ok {
		if k, ok := a.(*ssa.Const); ok {
			return ph, k
		}
	}
	return nil, nil
}

// nonEmptyString: fmt.Sprintf / Errorf-style call whose constant format starts
// with literal text, or a non-empty string constant.
func nonEmptyString(v ssa.Value) bool {
	call, ok := v.(*ssa.Call)
	if !ok {
		return false
	}
	callee := call.Common().StaticCallee()
	if callee == nil || callee.Pkg == nil || callee.Pkg.Pkg.Path() != "fmt" || callee.Name() != "Sprintf" {
		return false
	}
	if k, ok := call.Common().Args[0].(*ssa.Const); ok && k.Value != nil {
		s := constant.StringVal(k.Value)
		return len(s) > 0 && s[0] != '%'
	}
	return false
}

const maxPaths = 4096

// phiBF: formula of a boolean phi = OR over the acyclic paths from the
// immediate dominator of the phi's block to each incoming edge of
// (branch conditions on the path AND incoming value).
func (fi *FuncInfo) phiBF(phi *ssa.Phi, depth int, edgeBF func(ssa.Value) *BF) *BF {
	if edgeBF == nil {
		edgeBF = func(e ssa.Value) *BF { return fi.valueBF(e, depth+1) }
	}
	blk := phi.Block().Index
	start := fi.Idom[blk]
	if start < 0 {
		return nil
	}
	var disj []*BF
	count := 0
	var walk func(b int, conj []*BF, seen map[int]bool) bool
	walk = func(b int, conj []*BF, seen map[int]bool) bool {
		if count > maxPaths {
			return false
		}
		bb := fi.Fn.Blocks[b]
		for si, s := range fi.Succs[b] {
			var c []*BF
			c = append(c, conj...)
			if iff, ok := bb.Instrs[len(bb.Instrs)-1].(*ssa.If); ok && len(bb.Succs) == 2 && bb.Succs[0] != bb.Succs[1] {
				cf := fi.valueBF(iff.Cond, depth+1)
				if bb.Succs[si].Index == bb.Succs[0].Index && si == 0 {
					c = append(c, cf)
				} else {
					c = append(c, bfNot(cf))
				}
			}
			if s == blk {
				// which incoming edge?
				for ei, pr := range phi.Block().Preds {
					if pr.Index == b {
						count++
						disj = append(disj, bfAnd(append(c, edgeBF(phi.Edges[ei]))...))
					}
				}
				continue
			}
			if seen[s] {
				return false // loop inside the region: not a short-circuit phi
			}
			seen[s] = true
			if !walk(s, c, seen) {
				return false
			}
			delete(seen, s)
		}
		return true
	}
	if !walk(start, nil, map[int]bool{start: true}) {
		return nil
	}
	return bfOr(disj...)
}

// Paths enumerates the acyclic paths from the function entry (or from block
// `from` if >= 0) to instruction `at`; each path is the list of branch-outcome
// formulas along it. ok=false if the path bound is exceeded.
func (fi *FuncInfo) Paths(at ssa.Instruction, from int) (paths [][]*BF, ok bool) {
	return fi.pathsOpt(at, from, false)
}

// PathFormulaNoAsserts is PathFormula without the conditions of assertion branches (an `if`
// whose other arm panics): what the code requires in order to reach `at`, assertions aside.
func (fi *FuncInfo) PathFormulaNoAsserts(at ssa.Instruction, from int) (*BF, bool) {
	paths, ok := fi.pathsOpt(at, from, true)
	if !ok {
		return nil, false
	}
	var disj []*BF
	for _, p := range paths {
		disj = append(disj, bfAnd(p...))
	}
	return bfOr(disj...), true
}

func (fi *FuncInfo) pathsOpt(at ssa.Instruction, from int, skipAsserts bool) (paths [][]*BF, ok bool) {
	target := at.Block().Index
	if from < 0 {
		from = 0
	}
	canReach := fi.canReach(target)
	if !canReach[from] {
		return nil, true
	}
	condCache := map[*ssa.If]*BF{}
	var walk func(b int, conj []*BF, seen map[int]bool) bool
	walk = func(b int, conj []*BF, seen map[int]bool) bool {
		if b == target {
			if len(paths) >= maxPaths {
				return false
			}
			paths = append(paths, append([]*BF{}, conj...))
			return true
		}
		bb := fi.Fn.Blocks[b]
		for si, s := range fi.Succs[b] {
			if !canReach[s] || seen[s] {
				continue // back edges are cut
			}
			c := conj
			if iff, ok := bb.Instrs[len(bb.Instrs)-1].(*ssa.If); ok && len(bb.Succs) == 2 && bb.Succs[0] != bb.Succs[1] && !(skipAsserts && fi.isAssertBlock(bb.Succs[1-si])) {
				cf := condCache[iff]
				if cf == nil {
					cf = fi.valueBF(iff.Cond, 0)
					condCache[iff] = cf
				}
				if si == 0 {
					c = append(append([]*BF{}, conj...), cf)
				} else {
					c = append(append([]*BF{}, conj...), bfNot(cf))
				}
			}
			seen[s] = true
			ok := walk(s, c, seen)
			delete(seen, s)
			if !ok {
				return false
			}
		}
		return true
	}
	if !walk(from, nil, map[int]bool{from: true}) {
		return nil, false
	}
	return paths, true
}

// PathFormula is the disjunction of all path conjunctions.
func (fi *FuncInfo) PathFormula(at ssa.Instruction, from int) (*BF, bool) {
	paths, ok := fi.Paths(at, from)
	if !ok {
		return nil, false
	}
	var disj []*BF
	for _, p := range paths {
		disj = append(disj, bfAnd(p...))
	}
	return bfOr(disj...), true
}

// pathsImply: every path's branch outcomes, restricted to the atoms that can
// bear on spec (its own atoms and enum tests of the same symbols), entail spec.
func (fi *FuncInfo) pathsImply(at ssa.Instruction, from int, spec *BF) (ok bool, undecided bool, detail string) {
	return fi.pathsImplyOpt(at, from, spec, false)
}

// pathsImplyOpt: asTested=true reasons about the outcomes of the tests as they
// were taken (no KILL): "whenever control reaches here, these tests had these
// outcomes when they were evaluated".
func (fi *FuncInfo) pathsImplyOpt(at ssa.Instruction, from int, spec *BF, asTested bool) (ok bool, undecided bool, detail string) {
	target := at.Block().Index
	if from < 0 {
		from = 0
	}
	canReach := fi.canReach(target)
	if !canReach[from] {
		return true, false, "no path reaches the site"
	}
	sm := map[string]*BAtom{}
	spec.atoms(sm)
	enumSyms := map[string]bool{}
	for _, a := range sm {
		if a.EnumSym != "" {
			enumSyms[a.EnumSym] = true
		}
	}
	// unsigned lemma: X == 0 entails X - Y <= 0; symbols X for which that matters
	zeroSyms := map[string][]*BAtom{}
	for _, a := range sm {
		if a.L != nil && a.L.K <= 0 {
			for k, cf := range a.L.T {
				if cf == 1 && len(a.L.T) == 2 && isUnsignedSym(a.L.S[k]) {
					zeroSyms[k] = append(zeroSyms[k], a)
				}
			}
		}
	}
	// comparisons of the same two quantities as a spec atom (a<b bears on a>b)
	dirs := map[string]bool{}
	for _, a := range sm {
		if a.L != nil && len(a.L.T) > 0 {
			d, _, _ := linDirection(a.L)
			dirs[d] = true
		}
	}
	sameDir := func(a *BAtom) bool {
		if a.L == nil || len(a.L.T) == 0 || len(dirs) == 0 {
			return false
		}
		d, _, _ := linDirection(a.L)
		return dirs[d]
	}
	relevant := func(f *BF) bool {
		am := map[string]*BAtom{}
		f.atoms(am)
		if len(am) == 0 {
			return false
		}
		for k, a := range am {
			if _, ok := sm[k]; ok {
				continue
			}
			if sameDir(a) {
				continue
			}
			if a.EnumSym != "" && enumSyms[a.EnumSym] {
				continue
			}
			if a.EnumSym != "" && a.EnumVal == 0 && zeroSyms[a.EnumSym] != nil {
				continue
			}
			return false
		}
		return true
	}
	// forward propagation of the distinct projected conjunctions, in reverse
	// postorder with back edges cut (same path set as acyclic enumeration, but
	// paths that agree on the relevant outcomes are merged).
	type conj struct {
		key string
		fs  []*BF
	}
	state := map[int]map[string]conj{from: {"": conj{}}}
	for _, b := range fi.order {
		st := state[b]
		if len(st) == 0 || !canReach[b] || b == target {
			continue
		}
		bb := fi.Fn.Blocks[b]
		for si, s := range fi.Succs[b] {
			if !canReach[s] || fi.rpo[s] <= fi.rpo[b] {
				continue
			}
			var lit *BF
			if iff, ok := bb.Instrs[len(bb.Instrs)-1].(*ssa.If); ok && len(bb.Succs) == 2 && bb.Succs[0] != bb.Succs[1] {
				cf := fi.valueBF(iff.Cond, 0)
				if si != 0 {
					cf = bfNot(cf)
				}
				if relevant(cf) {
					lit = cf
				} else if pj := projectBF(cf, func(a *BAtom) bool {
					if _, ok := sm[a.Key]; ok {
						return true
					}
					if sameDir(a) {
						return true
					}
					if a.EnumSym != "" && (enumSyms[a.EnumSym] || a.EnumVal == 0 && zeroSyms[a.EnumSym] != nil) {
						return true
					}
					return false
				}); pj != nil && pj.Op != 'c' {
					lit = pj
				}
			}
			if state[s] == nil {
				state[s] = map[string]conj{}
			}
			for _, cj := range st {
				n := cj
				if lit != nil {
					n = conj{key: cj.key + " & " + lit.String(), fs: append(append([]*BF{}, cj.fs...), lit)}
				}
				state[s][n.key] = n
				if len(state[s]) > maxPaths {
					return false, true, "path bound exceeded"
				}
			}
		}
	}
	final := state[target]
	if len(final) == 0 {
		return true, false, "no path reaches the site"
	}
	var keys []string
	for k := range final {
		keys = append(keys, k)
	}
	sort.Strings(keys)
	for _, k := range keys {
		fs := final[k].fs
		// apply the unsigned lemma: a positive literal X == 0 adds (X - Y <= 0)
		for _, f := range final[k].fs {
			if f.Op == 'a' && f.Atom.EnumSym != "" && f.Atom.EnumVal == 0 {
				for _, le := range zeroSyms[f.Atom.EnumSym] {
					fs = append(fs, &BF{Op: 'a', Atom: le})
				}
			}
		}
		ante := bfAnd(fs...)
		if !asTested {
			if why := fi.atomsKilled(ante, spec, at); why != "" {
				return false, false, why
			}
		}
		okI, why := bfImplies(ante, spec)
		if why == "too many atoms" {
			return false, true, why
		}
		if !okI {
			return false, false, fmt.Sprintf("a path with outcomes %s does not entail it: %s", ante, why)
		}
	}
	return true, false, fmt.Sprintf("all %d distinct path outcome sets entail %s", len(final), spec)
}

// truthTable enumerates assignments of the atoms of the given formulas
// (respecting enum exclusivity) and calls fn; returns false on first failure.
func truthTable(fs []*BF, fn func(env map[string]bool) bool) (ok bool, witness map[string]bool, tooBig bool) {
	am := map[string]*BAtom{}
	for _, f := range fs {
		f.atoms(am)
	}
	var bools []string
	groups := map[string][]string{}
	for k, a := range am {
		if a.EnumSym != "" {
			groups[a.EnumSym] = append(groups[a.EnumSym], k)
		} else {
			bools = append(bools, k)
		}
	}
	sort.Strings(bools)
	var gnames []string
	for g := range groups {
		sort.Strings(groups[g])
		gnames = append(gnames, g)
	}
	sort.Strings(gnames)
	// size check
	size := 1.0
	for range bools {
		size *= 2
	}
	for _, g := range gnames {
		size *= float64(len(groups[g]) + 1)
	}
	if size > 1<<20 {
		return false, nil, true
	}
	env := map[string]bool{}
	// enum groups: exactly one (or none) of the equalities is true
	gi := make([]int, len(gnames)) // 0 = none, i+1 = i-th constant
	for {
		for x, g := range gnames {
			for j, k := range groups[g] {
				env[k] = gi[x] == j+1
			}
		}
		for mask := 0; mask < 1<<len(bools); mask++ {
			for i, k := range bools {
				env[k] = mask&(1<<i) != 0
			}
			if !arithConsistent(am, env) {
				continue
			}
			if !fn(env) {
				w := map[string]bool{}
				for k, v := range env {
					w[k] = v
				}
				return false, w, false
			}
		}
		// next enum assignment
		x := 0
		for ; x < len(gnames); x++ {
			gi[x]++
			if gi[x] <= len(groups[gnames[x]]) {
				break
			}
			gi[x] = 0
		}
		if x == len(gnames) {
			break
		}
	}
	return true, nil, false
}

// Implies: a => b for all consistent assignments.
func bfImplies(a, b *BF) (bool, string) {
	ok, w, big := truthTable([]*BF{a, b}, func(env map[string]bool) bool { return !a.eval(env) || b.eval(env) })
	if big {
		return false, "too many atoms"
	}
	if !ok {
		return false, "counterexample " + envString(w)
	}
	return true, ""
}

// Equivalent: a <=> b.
func bfEquiv(a, b *BF) (bool, string) {
	ok, w, big := truthTable([]*BF{a, b}, func(env map[string]bool) bool { return a.eval(env) == b.eval(env) })
	if big {
		return false, "too many atoms"
	}
	if !ok {
		return false, "differs at " + envString(w)
	}
	return true, ""
}

func envString(env map[string]bool) string {
	var ks []string
	for k := range env {
		ks = append(ks, k)
	}
	sort.Strings(ks)
	var s []string
	for _, k := range ks {
		if env[k] {
			s = append(s, k)
		} else {
			s = append(s, "!("+k+")")
		}
	}
	return "{" + strings.Join(s, ", ") + "}"
}

// spec helpers ---------------------------------------------------------------

func cmpSym(a *Sym, op string, b *Sym) *Sym {
	return &Sym{K: KBin, Name: op, Args: []*Sym{a, b}}
}

// bfCmp builds the canonical atom formula for `a op b`.
func bfCmp(a *Sym, op string, b *Sym) *BF { return atomBF(cmpSym(a, op, b), true) }

func bfSym(s *Sym) *BF { return atomBF(s, true) }

// atomsKilled checks that every atom of spec that also occurs in code formula
// is still valid at `at` (no write between its test and at).
func (fi *FuncInfo) atomsKilled(code *BF, spec *BF, at ssa.Instruction) string {
	cm, sm := map[string]*BAtom{}, map[string]*BAtom{}
	code.atoms(cm)
	spec.atoms(sm)
	for k, a := range cm {
		if _, ok := sm[k]; !ok {
			continue
		}
		for _, ld := range a.Loads {
			if ld.Parent() != fi.Fn || ld == at {
				continue
			}
			locs := map[Loc]bool{}
			switch in := ld.(type) {
			case *ssa.Call:
				for _, callee := range fi.P.Callees(in) {
					for l := range fi.P.Effects(callee).Reads {
						locs[l] = true
					}
				}
			default:
				for _, l := range fi.P.instrReads(ld) {
					locs[l] = true
				}
			}
			expandDeref(locs)
			btw, ok := fi.Between(ld, at)
			if !ok {
				continue
			}
			if kin := fi.P.Killed(btw, locs, nil); kin != nil {
				return fmt.Sprintf("atom %s may be invalidated by %s", k, fi.P.InstrPos(kin))
			}
		}
	}
	return ""
}

func isUnsignedSym(s *Sym) bool {
	if s == nil || s.Typ == nil {
		return false
	}
	b, ok := s.Typ.Underlying().(*types.Basic)
	return ok && b.Info()&types.IsUnsigned != 0
}

// isNonNilValue: values that are never nil: fresh allocations and interface
// values made from a concrete value.
func isNonNilValue(v ssa.Value) bool {
	switch v.(type) {
	case *ssa.Alloc, *ssa.MakeInterface, *ssa.MakeMap, *ssa.MakeSlice, *ssa.MakeClosure, *ssa.Function:
		return true
	}
	return false
}

// assignBF substitutes a truth value for an atom.
func assignBF(f *BF, key string, val bool) *BF {
	switch f.Op {
	case 'c':
		return f
	case 'a':
		if f.Atom.Key == key {
			return bfConst(val)
		}
		return f
	case '!':
		return bfNot(assignBF(f.Kids[0], key, val))
	case '&', '|':
		ks := make([]*BF, len(f.Kids))
		for i, k := range f.Kids {
			ks[i] = assignBF(k, key, val)
		}
		if f.Op == '&' {
			return bfAnd(ks...)
		}
		return bfOr(ks...)
	}
	return f
}

// projectBF existentially quantifies the atoms that keep() rejects: the result
// is implied by f (a sound weakening of an antecedent) and mentions only kept
// atoms. nil if there are too many atoms to eliminate or nothing remains.
func projectBF(f *BF, keep func(*BAtom) bool) *BF {
	am := map[string]*BAtom{}
	f.atoms(am)
	var drop []string
	nKeep := 0
	for k, a := range am {
		if keep(a) {
			nKeep++
		} else {
			drop = append(drop, k)
		}
	}
	if nKeep == 0 || len(drop) > 6 {
		return nil
	}
	sort.Strings(drop)
	cur := []*BF{f}
	for _, k := range drop {
		var next []*BF
		for _, g := range cur {
			next = append(next, assignBF(g, k, true), assignBF(g, k, false))
		}
		cur = next
	}
	return bfOr(cur...)
}

// linDirection splits a linear form into a sign-normalised term part (as a
// key), the sign applied and the constant: L = sign*dir + k.
func linDirection(l *Lin) (key string, sign int64, k int64) {
	t := newLin()
	for kk, v := range l.T {
		t.T[kk] = v
		t.S[kk] = l.S[kk]
	}
	n := newLin()
	n.add(t, -1)
	if n.String() < t.String() {
		return n.String(), -1, l.K
	}
	return t.String(), 1, l.K
}

// arithConsistent rejects truth assignments that no integer valuation can
// realise, for atoms that compare the same linear expression with constants
// (x == c, x <= c): e.g. `t == o` together with `t > o`.
func arithConsistent(am map[string]*BAtom, env map[string]bool) bool {
	type bound struct {
		lo, hi       int64
		hasLo, hasHi bool
		eq           []int64
		ne           []int64
	}
	groups := map[string]*bound{}
	get := func(k string) *bound {
		if groups[k] == nil {
			groups[k] = &bound{}
		}
		return groups[k]
	}
	for key, a := range am {
		val := env[key]
		switch {
		case a.L != nil && len(a.L.T) > 0:
			dir, sign, k := linDirection(a.L)
			b := get(dir)
			// sign*x + k <= 0 (true) or >= 1 (false)
			if (sign == 1) == val {
				// upper bound
				var hi int64
				if sign == 1 {
					hi = -k // x <= -k
				} else {
					hi = k - 1 // -x + k >= 1  <=> x <= k-1
				}
				if !b.hasHi || hi < b.hi {
					b.hi, b.hasHi = hi, true
				}
			} else {
				var lo int64
				if sign == 1 {
					lo = 1 - k // x + k >= 1
				} else {
					lo = k // -x + k <= 0 <=> x >= k
				}
				if !b.hasLo || lo > b.lo {
					b.lo, b.hasLo = lo, true
				}
			}
		case a.EqL != nil && len(a.EqL.T) > 0:
			dir, sign, k := linDirection(a.EqL)
			b := get(dir)
			c := -k * sign // sign*x + k == 0
			if val {
				b.eq = append(b.eq, c)
			} else {
				b.ne = append(b.ne, c)
			}
		}
	}
	for _, b := range groups {
		for i := 1; i < len(b.eq); i++ {
			if b.eq[i] != b.eq[0] {
				return false
			}
		}
		if len(b.eq) > 0 {
			c := b.eq[0]
			if b.hasLo && c < b.lo || b.hasHi && c > b.hi {
				return false
			}
			for _, n := range b.ne {
				if n == c {
					return false
				}
			}
			continue
		}
		if b.hasLo && b.hasHi {
			if b.lo > b.hi {
				return false
			}
			// all points excluded?
			if b.hi-b.lo < 8 {
				free := false
				for x := b.lo; x <= b.hi; x++ {
					ex := false
					for _, n := range b.ne {
						if n == x {
							ex = true
						}
					}
					if !ex {
						free = true
					}
				}
				if !free {
					return false
				}
			}
		}
	}
	return true
}

// isAssertBlock: the block ends in a panic (builtin or a no-return logger call).
func (fi *FuncInfo) isAssertBlock(b *ssa.BasicBlock) bool {
	if fi.Cut[b.Index] >= 0 {
		return true
	}
	if len(b.Instrs) > 0 {
		if _, ok := b.Instrs[len(b.Instrs)-1].(*ssa.Panic); ok {
			return true
		}
	}
	return false
}
