package main

import (
	"fmt"
	"go/types"
	"strings"

	"golang.org/x/tools/go/ssa"
)

// C20 — proposal integrity.
func c20Proposals(c *Check) {
	p := c.P
	entryT := p.Type("raftpb", "Entry")
	dataF := p.Field("raftpb", "Entry", "Data")
	typeF := p.Field("raftpb", "Entry", "Type")
	termF := p.Field("raftpb", "Entry", "Term")
	indexF := p.Field("raftpb", "Entry", "Index")
	appendEntry := p.Method("raft", "raft", "appendEntry")
	lappend := p.Method("raft", "raftLog", "append")
	send := p.Method("raft", "raft", "send")
	becomeLeader := p.Method("raft", "raft", "becomeLeader")
	stepLeader := p.Func("raft", "stepLeader")
	getType := p.Method("raftpb", "Message", "GetType")
	msgProp := p.ConstVal("raftpb", "MsgProp")
	if entryT == nil || appendEntry == nil || lappend == nil || send == nil {
		return
	}
	// --- C20.O: where entry payloads come from
	nRaftMade := 0
	for _, lit := range p.Lits(entryT) {
		fi := p.Info(lit.Fn)
		site := p.site(lit.Alloc)
		top := lit.Fn
		for top.Parent() != nil {
			top = top.Parent()
		}
		dv, hasData := lit.Fields["Data"]
		_, hasTerm := lit.Fields["Term"]
		_, hasIndex := lit.Fields["Index"]
		var ds *Sym
		if hasData {
			ds = fi.Sym(dv)
		}
		switch {
		case hasData && ds.K != KNil:
			// payload: a parameter of an exported entry point, or a marshalled configuration change
			ok := false
			why := ds.Key()
			switch ds.K {
			case KParam:
				ok = top.Object() != nil && top.Object().Exported() || strings.Contains(top.Name(), "ropose") || top.Name() == "ReadIndex"
			case KExtract:
				if ds.Args[0].K == KCall {
					n := ds.Args[0].Name
					ok = strings.Contains(n, "MarshalConfChange") || strings.Contains(n, "proto.Marshal")
				}
			case KField:
				// copying an existing entry's payload (none today)
				ok = false
			}
			c.Result(ok, "C20.O", "entry literal with payload", fnName(lit.Fn), site, "Data comes from the caller of Propose/ReadIndex or is a marshalled conf change", sanitizeKey(why))
		case !hasData && (top.Signature.Recv() != nil && strings.Contains(top.Signature.Recv().Type().String(), "MemoryStorage") || top.Name() == "NewMemoryStorage"):
			// storage-internal marker entries (MemoryStorage dummy / snapshot base); never proposals
			_, _ = hasTerm, hasIndex
			c.Ok("C20.O", "marker entry inside MemoryStorage", fnName(lit.Fn), site, "payload-free marker entries of the in-memory Storage (position 0 placeholder)", "")
		default:
			// raft-made, payload-free log entries
			nRaftMade++
			ok := lit.Fn == becomeLeader || lit.Fn == stepLeader
			tc, okT := lit.TypeConsts(p)
			if _, has := lit.Fields["Type"]; has {
				ok = ok && okT && len(tc) == 1 && tc[0] == p.ConstVal("raftpb", "EntryNormal")
			}
			c.Result(ok, "C20.O", "raft-made empty entry", fnName(lit.Fn), site, "the only entries raft invents are the leader's no-op and neutralised conf changes (both empty EntryNormal); auto-leave goes through confChangeToMsg(nil)", "")
		}
	}
	c.Result(nRaftMade >= 1, "C20.O", "number of raft-made entry sites", "-", "-", "raft-made empty entries exist (each site is classified above: becomeLeader no-op, neutralisation)", fmt.Sprint(nRaftMade))
	// --- C20.I: entries are immutable once created
	for _, f := range []*types.Var{dataF, typeF} {
		for _, st := range p.StoresTo(f) {
			if st.Fresh {
				continue
			}
			if fnPkg(st.Fn).Path() == pkgPaths["raftpb"] {
				continue
			}
			c.Bad("C20.I", "store Entry."+f.Name()+" on an existing entry", fnName(st.Fn), p.site(st.Instr), "payload and type are never modified after construction", "")
		}
	}
	nStamp := 0
	for _, f := range []*types.Var{termF, indexF} {
		for _, st := range p.StoresTo(f) {
			if st.Fresh || fnPkg(st.Fn).Path() == pkgPaths["raftpb"] {
				continue
			}
			nStamp++
			fa := st.Addr.(*ssa.FieldAddr)
			ok := st.Fn == appendEntry && isFreshValue(fa.X, 0)
			c.Result(ok, "C20.I", "store Entry."+f.Name(), fnName(st.Fn), p.site(st.Instr), "only appendEntry stamps Term/Index, and only on its own proto.Clone of the proposal", "")
		}
	}
	c.Result(nStamp >= 2, "C20.I", "stamp sites", "-", "-", "Term and Index are stamped (each site is classified above)", fmt.Sprint(nStamp))
	// order and identity: cloned[i] <- proto.Clone(es[i])
	{
		fi := p.Info(appendEntry)
		es := fi.Sym(appendEntry.Params[1])
		nClone := 0
		for _, in := range p.liveInstrsOf(appendEntry) {
			st, ok := in.(*ssa.Store)
			if !ok {
				continue
			}
			ia, ok := st.Addr.(*ssa.IndexAddr)
			if !ok {
				continue
			}
			if _, isMk := ia.X.(*ssa.MakeSlice); !isMk {
				continue
			}
			nClone++
			v := fi.Sym(st.Val)
			okC := strings.Contains(v.Key(), "proto.Clone("+es.Key()+"["+fi.Sym(ia.Index).Key()+"])")
			c.Result(okC, "C20.I", "appendEntry clones in order", fnName(appendEntry), p.site(st), "cloned[i] <- proto.Clone(es[i]) (same position)", sanitizeKey(v.Key()))
		}
		c.Result(nClone == 1, "C20.I", "appendEntry clone site", fnName(appendEntry), p.Pos(appendEntry.Pos()), "one element store into the appended slice", fmt.Sprint(nClone))
		// the appended slice is that clone slice, appended once, outside any loop
		for _, ci := range p.CallsIn(appendEntry, lappend) {
			inLoop := fi.ReachableFrom(fi.Succs[ci.Block().Index], nil)[ci.Block().Index]
			c.Result(!inLoop, "C20.N", "raftLog.append once per appendEntry", fnName(appendEntry), p.site(ci), "not inside a loop", "")
		}
	}
	// forwarded proposals are not rewritten by followers (C11.F checks the only store is m.To)
	// --- C20.D: dropped means dropped
	nDrop := 0
	for _, fn := range p.RuleFuncs {
		if fnPkg(fn).Path() != pkgPaths["raft"] {
			continue
		}
		fi := p.Info(fn)
		for _, ret := range returnsOf(fi) {
			if len(ret.Results) == 0 {
				continue
			}
			ev := fi.RetSym(ret, len(ret.Results)-1)
			if !isSentinel(ev, "ErrProposalDropped") {
				continue
			}
			nDrop++
			var bad []string
			f := fi.FactsAt(ret)
			tested := &Facts{FI: fi, Atoms: f.Tested}
			for _, in := range fi.EntryTo(ret) {
				// handing the proposal to the raft goroutine counts as acting on it
				switch x := in.(type) {
				case *ssa.Send:
					bad = append(bad, "channel send at "+p.site(in))
				case *ssa.Select:
					for _, stt := range x.States {
						if stt.Dir == types.SendOnly {
							bad = append(bad, "select with a send arm at "+p.site(in))
						}
					}
				}
				ci, ok := in.(ssa.CallInstruction)
				if !ok {
					continue
				}
				if _, isB := ci.Common().Value.(*ssa.Builtin); isB {
					continue
				}
				if !fi.ReachableFrom([]int{ci.Block().Index}, nil)[ret.Block().Index] && ci.Block() != ret.Block() {
					continue
				}
				reaches := p.CallReaches(ci, lappend) || p.CallReaches(ci, send)
				for _, callee := range p.Callees(ci) {
					if callee == send || callee == lappend {
						reaches = true
					}
				}
				if !reaches {
					continue
				}
				// the one exception: appendEntry itself, when this return is on its false edge
				if callee := ci.Common().StaticCallee(); callee == appendEntry {
					if tested.HasBool(func(s *Sym) bool { return s.V == ci.Value() }, false) != nil {
						continue
					}
				}
				bad = append(bad, fmt.Sprintf("%s at %s", sanitizeKey(fi.Sym(valueOfCall(ci)).Key()), p.site(in)))
			}
			c.Result(len(bad) == 0, "C20.D", "return ErrProposalDropped", fnName(fn), p.site(ret), "no append to the log and no send can precede a 'dropped' result (except appendEntry reporting false)", strings.Join(bad, "; "))
		}
	}
	c.Result(nDrop >= 5, "C20.D", "dropped-proposal returns found", "-", "-", "stepLeader ×3, stepCandidate, stepFollower ×2", fmt.Sprint(nDrop))
	// the accepting return of the leader's MsgProp arm is behind appendEntry == true
	if stepLeader != nil {
		fi := p.Info(stepLeader)
		m := fi.Sym(stepLeader.Params[1])
		for _, ci := range p.CallsIn(stepLeader, appendEntry) {
			inLoop := fi.ReachableFrom(fi.Succs[ci.Block().Index], nil)[ci.Block().Index]
			c.Result(!inLoop, "C20.N", "appendEntry once per proposal message", fnName(stepLeader), p.site(ci), "not inside the per-entry loop", "")
			// argument is the message's own entries
			_, elems, spread, ok := variadicArgs(ci)
			okArg := ok && len(elems) == 0 && spread != nil && strings.HasPrefix(fi.Sym(spread).Key(), m.Key()+".GetEntries()")
			c.Result(okArg, "C20.O", "leader appends the proposal's own entries", fnName(stepLeader), p.site(ci), "appendEntry(m.Entries...)", "")
			f := fi.FactsAt(ci)
			c.Result(f.EnumFact(CallSym(getType, m), msgProp) == 1, "C20.O", "appendEntry in stepLeader only for MsgProp", fnName(stepLeader), p.site(ci), "m.GetType() == MsgProp", strings.Join(f.Describe(), "; "))
		}
	}
	// --- C20.F: send leaves Term unset for forwarded proposals
	{
		fi := p.Info(send)
		m := fi.Sym(send.Params[1])
		mTerm := p.Field("raftpb", "Message", "Term")
		for _, st := range p.StoresTo(mTerm) {
			if st.Fn != send || st.Whole {
				continue
			}
			f := fi.FactsAt(st.Instr)
			c.Result(f.EnumFact(CallSym(getType, m), msgProp) == -1, "C20.F", "send does not stamp a term on MsgProp", fnName(send), p.site(st.Instr), "m.GetType() != MsgProp (forwarded proposals stay local-looking so the leader treats them as its own)", strings.Join(f.Describe(), "; "))
		}
	}
	// --- C20.B: one no-op per leadership
	if becomeLeader != nil {
		sites := p.CallsTo(becomeLeader)
		c.Result(len(sites) >= 1, "C20.B", "becomeLeader call sites", fnName(becomeLeader), p.Pos(becomeLeader.Pos()), "leadership (and its one empty entry) starts at exactly one place", fmt.Sprint(len(sites)))
	}
}
