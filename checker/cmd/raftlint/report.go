package main

import (
	"crypto/sha256"
	"encoding/json"
	"fmt"
	"os"
	"path/filepath"
	"sort"
	"strings"
	"time"
)

const (
	StDischarged = "discharged"
	StExcepted   = "excepted"
	StViolated   = "violated"
	StUndecided  = "undecided"
	StKnown      = "known-finding"
	StInfo       = "info"
)

// Obligation is one generated proof obligation (DESIGN §3.1). Positions are
// output only; Key (rule + construct + enclosing function) is the identity.
type Obligation struct {
	Rule       string   `json:"rule"`
	Construct  string   `json:"construct"`
	Func       string   `json:"func,omitempty"`
	Site       string   `json:"site,omitempty"`
	Require    string   `json:"require,omitempty"`
	Status     string   `json:"status"`
	Detail     string   `json:"detail,omitempty"`
	Chain      []string `json:"chain,omitempty"`
	Nontrivial bool     `json:"nontrivial"`
	Variant    string   `json:"variant,omitempty"`
}

func (o *Obligation) Key() string {
	return o.Rule + " | " + o.Construct + " | " + o.Func
}

// Check accumulates the obligations of one property run.
type Check struct {
	P         *Prog
	Property  string
	Obs       []*Obligation
	Notes     []string
	Omitted   []string
	excUsed   map[string]bool
	SkipRules map[string]bool // rules of a borrowed group that this property does not rest on
	OnlyRules map[string]bool // when set, only these rules of a borrowed group are recorded
	raw       bool            // recording for the group cache: no filters, no exception lookup
}

func NewCheck(p *Prog, prop string) *Check {
	return &Check{P: p, Property: prop, excUsed: map[string]bool{}}
}

func (c *Check) add(o *Obligation) *Obligation {
	o.Variant = c.P.Variant.Name
	if c.raw {
		c.Obs = append(c.Obs, o)
		return o
	}
	if c.SkipRules[o.Rule] || c.OnlyRules != nil && !c.OnlyRules[o.Rule] {
		// a shared group is borrowed by a property that does not rest on this rule
		return o
	}
	// exceptions turn a violated/undecided obligation into an excepted one
	if o.Status == StViolated || o.Status == StUndecided {
		if reason, ok := lookupException(o); ok {
			o.Detail = "EXCEPTION: " + reason + " | would be: " + o.Status + ": " + o.Detail
			o.Status = StExcepted
			c.excUsed[exceptionKey(o.Rule, o.Construct, o.Func)] = true
		}
	}
	c.Obs = append(c.Obs, o)
	return o
}

// Ok records a discharged obligation.
func (c *Check) Ok(rule, construct, fn, site, require, detail string, chain ...string) {
	c.add(&Obligation{Rule: rule, Construct: construct, Func: fn, Site: site, Require: require, Status: StDischarged, Detail: detail, Chain: chain, Nontrivial: true})
}

// OkTrivial records an obligation satisfied by absence (no guard needed).
func (c *Check) OkTrivial(rule, construct, fn, site, require, detail string) {
	c.add(&Obligation{Rule: rule, Construct: construct, Func: fn, Site: site, Require: require, Status: StDischarged, Detail: detail})
}

func (c *Check) Bad(rule, construct, fn, site, require, detail string, chain ...string) {
	c.add(&Obligation{Rule: rule, Construct: construct, Func: fn, Site: site, Require: require, Status: StViolated, Detail: detail, Chain: chain, Nontrivial: true})
}

func (c *Check) Undecided(rule, construct, fn, site, require, detail string, chain ...string) {
	c.add(&Obligation{Rule: rule, Construct: construct, Func: fn, Site: site, Require: require, Status: StUndecided, Detail: detail, Chain: chain, Nontrivial: true})
}

// Result: convenience — ok decides between Ok and Bad.
func (c *Check) Result(ok bool, rule, construct, fn, site, require, detail string, chain ...string) bool {
	if ok {
		c.Ok(rule, construct, fn, site, require, detail, chain...)
	} else {
		c.Bad(rule, construct, fn, site, require, detail, chain...)
	}
	return ok
}

// Info records an observation that never fails the check (defensive guards
// whose removal does not break the property for contract-respecting use).
func (c *Check) Info(present bool, rule, construct, fn, site, what, detail string) {
	st := "present"
	if !present {
		st = "ABSENT"
	}
	c.add(&Obligation{Rule: rule, Construct: construct, Func: fn, Site: site, Require: what, Status: StInfo, Detail: "defensive guard " + st + ": " + detail})
}

func (c *Check) Note(format string, args ...any) {
	c.Notes = append(c.Notes, fmt.Sprintf(format, args...))
}

func (c *Check) Omit(format string, args ...any) {
	c.Omitted = append(c.Omitted, fmt.Sprintf(format, args...))
}

// ---- evidence ------------------------------------------------------------------

type Evidence struct {
	PropertyID  string         `json:"property_id"`
	Tier        string         `json:"tier"`
	Seed        int64          `json:"seed"`
	Level       string         `json:"level"`
	Coverage    map[string]any `json:"coverage"`
	Assumptions []string       `json:"assumptions"`
	WallS       float64        `json:"wall_s"`
	Violations  int            `json:"violations"`
}

type RunResult struct {
	Property   string
	Tier       string
	Seed       int64
	Start      time.Time
	Obs        []*Obligation
	Notes      []string
	Omitted    []string
	Variants   []string
	Funcs      int
	Edges      int
	Packages   []string
	Failures   []string // engine-level failures (load errors, anchors, floors, fixtures)
	Known      []string
	Audit      map[string]any
	Explain    string
	Assume     []string
	FixtureLog []string
}

func (r *RunResult) counts() (total, discharged, excepted, violated, undecided, known, nontrivial int, byRule map[string]int) {
	byRule = map[string]int{}
	seen := map[string]bool{}
	for _, o := range r.Obs {
		if o.Status == StInfo {
			continue
		}
		total++
		byRule[o.Rule]++
		switch o.Status {
		case StDischarged:
			discharged++
		case StExcepted:
			excepted++
		case StViolated:
			violated++
		case StUndecided:
			undecided++
		case StKnown:
			known++
		}
		k := o.Key() + "|" + o.Site
		if o.Nontrivial && o.Status == StDischarged && !seen[k] {
			seen[k] = true
			nontrivial++
		}
	}
	return
}

func writeJSON(path string, v any) error {
	if err := os.MkdirAll(filepath.Dir(path), 0o755); err != nil {
		return err
	}
	b, err := json.MarshalIndent(v, "", " ")
	if err != nil {
		return err
	}
	return os.WriteFile(path, append(b, '\n'), 0o644)
}

// Finish writes evidence and, on failure, the violation report; returns the
// process exit code.
func (r *RunResult) Finish(verifDir string) int {
	total, discharged, excepted, violated, undecided, known, nontrivial, byRule := r.counts()
	var samples []any
	// samples: a spread of obligations with their chains
	step := 1
	if len(r.Obs) > 12 {
		step = len(r.Obs) / 12
	}
	for i := 0; i < len(r.Obs); i += step {
		samples = append(samples, r.Obs[i])
	}
	var bad []*Obligation
	for _, o := range r.Obs {
		if o.Status == StViolated || o.Status == StUndecided {
			bad = append(bad, o)
		}
	}
	nviol := len(bad) + len(r.Failures)
	cov := map[string]any{
		"explanation":         r.Explain,
		"obligations":         total,
		"discharged":          discharged,
		"excepted":            excepted,
		"violated":            violated,
		"undecided":           undecided,
		"known_findings":      known,
		"evaluations":         total,
		"distinct_nontrivial": nontrivial,
		"rule":                "obligations are generated from the program (every store to an anchored field, every call site of an anchored callee, every message literal of an anchored type ...); one is non-trivial when its discharge needed at least one guard fact, provenance step or call-graph edge; distinct by rule+construct+function+site",
		"rule_instances":      byRule,
		"functions_analysed":  r.Funcs,
		"call_edges":          r.Edges,
		"packages":            r.Packages,
		"variants":            r.Variants,
		"samples":             samples,
		"all_obligations":     r.Obs,
		"notes":               r.Notes,
		"omitted":             r.Omitted,
		"engine_failures":     r.Failures,
		"fixtures":            r.FixtureLog,
		"checker_cmd":         fmt.Sprintf("bin/raftlint -property %s -tier %s", r.Property, r.Tier),
		"exhaustive":          false,
	}
	if r.Audit != nil {
		cov["audit"] = r.Audit
	}
	ev := Evidence{
		PropertyID: r.Property, Tier: r.Tier, Seed: r.Seed, Level: "other",
		Coverage: cov, Assumptions: r.Assume,
		WallS: time.Since(r.Start).Seconds(), Violations: nviol,
	}
	evPath := filepath.Join(verifDir, "evidence", r.Property+".json")
	if err := writeJSON(evPath, ev); err != nil {
		fmt.Fprintf(os.Stderr, "cannot write evidence: %v\n", err)
		return 2
	}
	for _, k := range r.Known {
		fmt.Printf("KNOWN-FINDING: property=%s %s\n", r.Property, k)
	}
	fmt.Printf("%s tier=%s obligations=%d discharged=%d excepted=%d violated=%d undecided=%d known=%d nontrivial=%d wall=%.1fs\n",
		r.Property, r.Tier, total, discharged, excepted, violated, undecided, known, nontrivial, time.Since(r.Start).Seconds())
	if nviol == 0 {
		return 0
	}
	rep := map[string]any{
		"property":        r.Property,
		"tier":            r.Tier,
		"engine_failures": r.Failures,
		"violations":      bad,
	}
	b, _ := json.Marshal(rep)
	sum := sha256.Sum256(b)
	repPath := filepath.Join(verifDir, "reports", fmt.Sprintf("%s-%x.json", r.Property, sum[:4]))
	_ = writeJSON(repPath, rep)
	for _, fl := range r.Failures {
		fmt.Printf("  ENGINE: %s\n", fl)
	}
	sort.SliceStable(bad, func(i, j int) bool { return bad[i].Key() < bad[j].Key() })
	for _, o := range bad {
		fmt.Printf("  %s: [%s] %s in %s at %s\n      require: %s\n      %s\n", strings.ToUpper(o.Status), o.Rule, o.Construct, o.Func, o.Site, o.Require, o.Detail)
		for _, ch := range o.Chain {
			fmt.Printf("        . %s\n", ch)
		}
	}
	fmt.Printf("VIOLATION property=%s replay=%s\n", r.Property, repPath)
	return 1
}

// g runs a rule group once per loaded program and replays its obligations into every property
// that includes it (groups are shared by several properties; -all runs them all on one program).
func g(c *Check, name string, fn func(*Check)) {
	p := c.P
	if p.groupCache == nil {
		p.groupCache = map[string]*Check{}
	}
	tmp, ok := p.groupCache[name]
	if !ok {
		tmp = NewCheck(p, c.Property)
		tmp.raw = true
		fn(tmp)
		p.groupCache[name] = tmp
	}
	for _, o := range tmp.Obs {
		cp := *o
		cp.Chain = append([]string{}, o.Chain...)
		c.add(&cp)
	}
	c.Notes = append(c.Notes, tmp.Notes...)
	c.Omitted = append(c.Omitted, tmp.Omitted...)
}
