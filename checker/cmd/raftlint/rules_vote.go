package main

import (
	"fmt"
	"strings"

	"golang.org/x/tools/go/ssa"
)

// pathImplies: on every acyclic path to `at`, the branch outcomes entail spec
// (predicate abstraction over the conditions written in the source).
func pathImplies(c *Check, fi *FuncInfo, at ssa.Instruction, spec *BF) (ok bool, undecided bool, detail string) {
	return fi.pathsImply(at, -1, spec)
}

// G-VOTE — a real vote is granted at most once per term and only to an up-to-date log.
func gVote(c *Check) {
	p := c.P
	defer timing("gVote")()
	const rule = "G-VOTE"
	voteF := p.Field("raft", "raft", "Vote")
	termF := p.Field("raft", "raft", "Term")
	leadF := p.Field("raft", "raft", "lead")
	idF := p.Field("raft", "raft", "id")
	step := p.Method("raft", "raft", "Step")
	reset := p.Method("raft", "raft", "reset")
	loadState := p.Method("raft", "raft", "loadState")
	newRaft := p.Func("raft", "newRaft")
	isUpToDate := p.Method("raft", "raftLog", "isUpToDate")
	lastEntryID := p.Method("raft", "raftLog", "lastEntryID")
	getFrom := p.Method("raftpb", "Message", "GetFrom")
	getType := p.Method("raftpb", "Message", "GetType")
	getTerm := p.Method("raftpb", "Message", "GetTerm")
	getLogTerm := p.Method("raftpb", "Message", "GetLogTerm")
	getIndex := p.Method("raftpb", "Message", "GetIndex")
	getVote := p.Method("raftpb", "HardState", "GetVote")
	raftLogF := p.Field("raft", "raft", "raftLog")
	eidT := p.Field("raft", "entryID", "term")
	eidI := p.Field("raft", "entryID", "index")
	msgVote := p.ConstVal("raftpb", "MsgVote")
	msgPreVote := p.ConstVal("raftpb", "MsgPreVote")
	msgVoteResp := p.ConstVal("raftpb", "MsgVoteResp")
	msgPreVoteResp := p.ConstVal("raftpb", "MsgPreVoteResp")
	none := p.ConstVal("raft", "None")
	if step == nil || reset == nil || isUpToDate == nil || voteF == nil {
		return
	}

	canVoteSpec := func(r, m *Sym) *BF {
		vote := FieldOf(r, voteF)
		return bfOr(
			bfCmp(vote, "==", CallSym(getFrom, m)),
			bfAnd(bfCmp(vote, "==", constSym(none)), bfCmp(FieldOf(r, leadF), "==", constSym(none))),
			bfAnd(bfCmp(CallSym(getType, m), "==", constSym(msgPreVote)), bfCmp(CallSym(getTerm, m), ">", FieldOf(r, termF))),
		)
	}
	upToDateSpec := func(r, m *Sym) *BF {
		cand := &Sym{K: KLit, Typ: p.Type("raft", "entryID"), Args: []*Sym{CallSym(getLogTerm, m), CallSym(getIndex, m)}}
		return bfSym(CallSym(isUpToDate, FieldOf(r, raftLogF), cand))
	}

	// (a)+(b): writers of raft.Vote
	for _, st := range p.StoresTo(voteF) {
		fi := p.Info(st.Fn)
		site := p.site(st.Instr)
		if st.Fresh {
			c.OkTrivial(rule+".writers", "store raft.Vote (constructor)", fnName(st.Fn), site, "fresh object", "")
			continue
		}
		if st.Whole {
			c.Bad(rule+".writers", "whole-struct store over raft.Vote", fnName(st.Fn), site, "Vote is only written field-wise", "")
			continue
		}
		r := storeBase(fi, st)
		v := fi.Sym(st.Val)
		switch {
		case v.K == KConst && v.C != nil && v.C.String() == fmt.Sprint(none):
			// clearing the vote: only when the term changes
			ok := false
			f := fi.FactsAt(st.Instr)
			for _, prm := range st.Fn.Params {
				if f.WasTested(ReqCmp(FieldOf(r, termF), "!=", fi.Sym(prm))) {
					// and the term is being set to that parameter
					for _, ts := range p.StoresTo(termF) {
						if ts.Fn == st.Fn && fi.Sym(ts.Val).Key() == fi.Sym(prm).Key() && ts.Instr.Block() == st.Instr.Block() {
							ok = true
						}
					}
				}
			}
			c.Result(ok, rule+".clear", "store raft.Vote = None", fnName(st.Fn), site, "vote is forgotten only together with a term change (r.Term != term, Term <- term)", strings.Join(f.Describe(), "; "))
		case v.Key() == FieldOf(r, idF).Key():
			// self-vote: after reset(r.Term+1) in the same function
			ok := false
			detail := "no dominating reset(r.Term+1)"
			for _, ci := range p.CallsIn(st.Fn, reset) {
				if !fi.InstrDominates(ci, st.Instr) {
					continue
				}
				arg := fi.Sym(callArgs(ci)[1])
				d := LinOf(arg)
				d.add(LinOf(FieldOf(r, termF)), -1)
				if len(d.T) == 0 && d.K >= 1 {
					ok = true
					detail = fmt.Sprintf("reset(%s) at %s dominates the store", arg, p.site(ci))
				}
			}
			c.Result(ok, rule+".self", "store raft.Vote = r.id", fnName(st.Fn), site, "self-vote only right after moving to a higher term", detail)
		case v.K == KCall && v.Fn == getFrom:
			m := v.Args[0]
			spec := bfAnd(bfCmp(CallSym(getType, m), "==", constSym(msgVote)), upToDateSpec(r, m), canVoteSpec(r, m))
			ok, und, detail := pathImplies(c, fi, st.Instr, spec)
			construct := "store raft.Vote = m.GetFrom()"
			req := "every path: type==MsgVote && isUpToDate(candidate last entry) && (Vote==From || (Vote==None && lead==None) || (type==MsgPreVote && m.Term>r.Term))"
			if und {
				c.Undecided(rule+".grant", construct, fnName(st.Fn), site, req, detail)
			} else {
				c.Result(ok, rule+".grant", construct, fnName(st.Fn), site, req, detail)
			}
		case v.K == KCall && v.Fn == getVote:
			ok := st.Fn == loadState
			if ok {
				for _, cs := range p.CallsTo(loadState) {
					if cs.Caller != newRaft {
						ok = false
					}
				}
			}
			c.Result(ok, rule+".restart", "store raft.Vote = state.GetVote()", fnName(st.Fn), site, "vote is reloaded from the persisted HardState only at start-up (loadState <- newRaft)", "")
			loadStateComplete(c, rule+".restart")
		default:
			c.Bad(rule+".writers", "store raft.Vote", fnName(st.Fn), site, "Vote is written only as None (term change), r.id (candidacy), m.From (grant) or from the HardState", "value "+v.Key())
		}
	}

	// (c) isUpToDate is the exact lexicographic comparison
	ifi := p.Info(isUpToDate)
	{
		l := ifi.Sym(isUpToDate.Params[0])
		their := ifi.Sym(isUpToDate.Params[1])
		our := CallSym(lastEntryID, l)
		spec := bfOr(
			bfCmp(FieldOf(their, eidT), ">", FieldOf(our, eidT)),
			bfAnd(bfCmp(FieldOf(their, eidT), "==", FieldOf(our, eidT)), bfCmp(FieldOf(their, eidI), ">=", FieldOf(our, eidI))),
		)
		code := p.ReturnFormula(isUpToDate)
		if code == nil {
			c.Undecided(rule+".uptodate", "raftLog.isUpToDate", fnName(isUpToDate), p.Pos(isUpToDate.Pos()), "lexicographic (term, index) comparison", "function too complex to summarise")
		} else {
			ok, why := bfEquiv(code, spec)
			c.Result(ok, rule+".uptodate", "raftLog.isUpToDate", fnName(isUpToDate), p.Pos(isUpToDate.Pos()), "their.term > our.term || (their.term == our.term && their.index >= our.index), our <- lastEntryID()", fmt.Sprintf("code: %s %s", code, why))
		}
	}

	// (d) grants: vote responses without Reject
	msgT := p.Type("raftpb", "Message")
	send := p.Method("raft", "raft", "send")
	voteResp := p.Func("raft", "voteRespMsgType")
	for _, lit := range p.Lits(msgT) {
		tc, ok := lit.TypeConsts(p)
		if !ok {
			continue
		}
		isVR := false
		for _, t := range tc {
			if t == msgVoteResp || t == msgPreVoteResp {
				isVR = true
			}
		}
		if !isVR {
			continue
		}
		fi := p.Info(lit.Fn)
		site := p.site(lit.Alloc)
		rej := lit.FieldSym(p, "Reject")
		if rej != nil {
			okR := rej.K == KConst && rej.C != nil && rej.C.String() == "true"
			c.Result(okR, rule+".reject", "vote response with Reject key", fnName(lit.Fn), site, "Reject is the constant true", "Reject <- "+rej.Key())
			continue
		}
		// a grant. Find the send call consuming it
		var sendCall ssa.Instruction
		for _, u := range lit.Uses(p) {
			if u.Kind == "arg" && len(u.Callee) == 1 && u.Callee[0] == send {
				sendCall = u.Instr
			}
		}
		if sendCall == nil {
			c.Bad(rule+".grant", "granted vote response not sent through send", fnName(lit.Fn), site, "grants are handed to raft.send", "no send call")
			continue
		}
		to := lit.FieldSym(p, "To")
		r := fi.Sym(lit.Fn.Params[0])
		// self-vote of a candidate: To <- id under id == r.id
		f := fi.FactsAt(sendCall)
		if to != nil && f.ImpliesCmp(to, "==", FieldOf(r, idF)) {
			c.Ok(rule+".grant", "self-addressed vote response", fnName(lit.Fn), site, "addressed to the node itself (To == r.id): the candidate's own vote", strings.Join(f.Describe(), "; "))
			continue
		}
		// a grant to a peer: must be the guarded arm, addressed to m.From with m's term
		var m *Sym
		if to != nil && to.K == KDeref && len(to.Args) == 1 {
			// To: m.From  (pointer copy)
			inner := to.Args[0]
			if inner.K == KField && inner.Fld.Name() == "From" {
				m = inner.Args[0]
			}
		}
		if m == nil {
			c.Bad(rule+".grant", "granted vote response", fnName(lit.Fn), site, "a grant is addressed to the requester (To <- m.From)", fmt.Sprintf("To <- %v", to))
			continue
		}
		spec := bfAnd(upToDateSpec(r, m), canVoteSpec(r, m))
		ok, und, detail := pathImplies(c, fi, sendCall, spec)
		req := "every path: isUpToDate(candidate last entry) && canVote"
		if und {
			c.Undecided(rule+".grant", "granted vote response to m.From", fnName(lit.Fn), site, req, detail)
		} else {
			c.Result(ok, rule+".grant", "granted vote response to m.From", fnName(lit.Fn), site, req, detail)
		}
		// type of the response is derived from the request type
		tv := lit.Fields["Type"]
		okT := false
		if call, isCall := tv.(*ssa.Call); isCall && len(call.Common().Args) == 1 {
			ts := fi.Sym(call.Common().Args[0])
			okT = ts.K == KCall && ts.Fn == voteResp && ts.Args[0].Key() == CallSym(getType, m).Key()
		}
		c.Result(okT, rule+".grant", "granted vote response type", fnName(lit.Fn), site, "Type <- voteRespMsgType(m.GetType())", "")
		// term echoes the request's term
		tm := lit.FieldSym(p, "Term")
		okTerm := tm != nil && tm.K == KDeref && tm.Args[0].K == KField && tm.Args[0].Fld.Name() == "Term" && tm.Args[0].Args[0].Key() == m.Key()
		c.Result(okTerm, rule+".grant", "granted vote response term", fnName(lit.Fn), site, "Term <- m.Term", fmt.Sprintf("Term <- %v", tm))
	}
}

// G-ELECT — a node becomes leader only by winning the tally of its own candidacy.
func gElect(c *Check) {
	p := c.P
	defer timing("gElect")()
	const rule = "G-ELECT"
	becomeLeader := p.Method("raft", "raft", "becomeLeader")
	poll := p.Method("raft", "raft", "poll")
	tally := p.Method("tracker", "ProgressTracker", "TallyVotes")
	recordVote := p.Method("tracker", "ProgressTracker", "RecordVote")
	resetVotes := p.Method("tracker", "ProgressTracker", "ResetVotes")
	jvr := p.Method("quorum", "JointConfig", "VoteResult")
	votesF := p.Field("tracker", "ProgressTracker", "Votes")
	votersF := p.Field("tracker", "Config", "Voters")
	stateF := p.Field("raft", "raft", "state")
	reset := p.Method("raft", "raft", "reset")
	campaign := p.Method("raft", "raft", "campaign")
	getType := p.Method("raftpb", "Message", "GetType")
	voteWon := p.ConstVal("quorum", "VoteWon")
	statePre := p.ConstVal("raft", "StatePreCandidate")
	msgVoteResp := p.ConstVal("raftpb", "MsgVoteResp")
	msgPreVoteResp := p.ConstVal("raftpb", "MsgPreVoteResp")
	if becomeLeader == nil || poll == nil || tally == nil || recordVote == nil || jvr == nil {
		return
	}
	// callers of becomeLeader
	for _, cs := range p.CallsTo(becomeLeader) {
		fi := p.Info(cs.Caller)
		site := p.site(cs.Instr)
		r := fi.Sym(callArgs(cs.Instr)[0])
		f := fi.FactsAt(cs.Instr)
		// res == VoteWon where res <- poll(...)#2
		won := false
		var pollCall *Sym
		for _, a := range f.Atoms {
			if a.K == AEq && len(a.L.T) == 1 {
				for k, s := range a.L.S {
					if s.K == KExtract && s.Idx == 2 && s.Args[0].K == KCall && s.Args[0].Fn == poll && a.L.T[k]*(-a.L.K) == voteWon {
						won = true
						pollCall = s.Args[0]
					}
				}
			}
		}
		c.Result(won, rule+".won", "becomeLeader under VoteWon", fnName(cs.Caller), site, "res == quorum.VoteWon with res <- r.poll(...)", strings.Join(f.Describe(), "; "))
		notPre := f.ImpliesCmp(FieldOf(r, stateF), "!=", constSym(statePre))
		c.Result(notPre, rule+".won", "becomeLeader not from a pre-vote tally", fnName(cs.Caller), site, "r.state != StatePreCandidate", strings.Join(f.Describe(), "; "))
		// the poll is fed with this message's sender and type, and the arm is the node's own response type
		if pollCall != nil {
			pin := pollCall.V.(ssa.Instruction)
			pf := fi.FactsAt(pin)
			// arm: m.GetType() == myVoteRespType (a phi of the two response constants chosen by state)
			okArm := false
			detail := ""
			for _, a := range pf.Atoms {
				if a.K != AEq || len(a.L.T) != 2 || a.L.K != 0 {
					continue
				}
				var phi *Sym
				hasType := false
				for _, s := range a.L.S {
					if s.K == KPhi {
						phi = s
					}
					if s.K == KCall && s.Fn == getType {
						hasType = true
					}
				}
				if phi == nil || !hasType {
					continue
				}
				vals, okc := p.PossibleConsts(phi.V, 2)
				if okc && len(vals) == 2 && vals[0] == min(msgVoteResp, msgPreVoteResp) && vals[1] == max(msgVoteResp, msgPreVoteResp) {
					// the phi picks MsgPreVoteResp exactly when state == StatePreCandidate
					ph := phi.V.(*ssa.Phi)
					okSel := false
					sel := fi.phiBF(ph, 0, func(e ssa.Value) *BF {
						cv, _ := p.PossibleConsts(e, 1)
						if len(cv) != 1 {
							return atomBF(fi.Sym(e), true)
						}
						return bfConst(cv[0] == msgPreVoteResp)
					})
					if sel != nil {
						okSel, _ = bfEquiv(sel, bfCmp(FieldOf(r, stateF), "==", constSym(statePre)))
					}
					okArm = okSel
					detail = fmt.Sprintf("myVoteRespType = %s selected by r.state", phi)
				}
			}
			c.Result(okArm, rule+".arm", "poll in the node's own response-type arm", fnName(cs.Caller), p.site(pin), "m.GetType() == (state==StatePreCandidate ? MsgPreVoteResp : MsgVoteResp)", detail+" {"+strings.Join(pf.Describe(), "; ")+"}")
		}
	}
	// poll -> RecordVote + TallyVotes
	pfi := p.Info(poll)
	for _, ret := range returnsOf(pfi) {
		v := pfi.RetSym(ret, 2)
		ok := v.K == KExtract && v.Idx == 2 && v.Args[0].K == KCall && v.Args[0].Fn == tally
		c.Result(ok, rule+".tally", "poll result", fnName(poll), p.site(ret), "result <- r.trk.TallyVotes()", "result <- "+v.Key())
	}
	c.Result(len(p.CallsIn(poll, recordVote)) == 1, rule+".tally", "poll records the vote", fnName(poll), p.Pos(poll.Pos()), "poll calls RecordVote exactly once", fmt.Sprint(len(p.CallsIn(poll, recordVote))))
	// TallyVotes result <- Voters.VoteResult(Votes) over the joint config
	tfi := p.Info(tally)
	for _, ret := range returnsOf(tfi) {
		v := tfi.RetSym(ret, 2)
		ok := v.K == KCall && v.Fn == jvr && v.Args[0].K == KField && v.Args[0].Fld == votersF && v.Args[1].K == KField && v.Args[1].Fld == votesF
		c.Result(ok, rule+".tally", "TallyVotes result", fnName(tally), p.site(ret), "result <- p.Voters.VoteResult(p.Votes) (joint)", "result <- "+v.Key())
	}
	// RecordVote: first answer wins
	rfi := p.Info(recordVote)
	nUpd := 0
	for _, in := range p.liveInstrsOf(recordVote) {
		mu, ok := in.(*ssa.MapUpdate)
		if !ok {
			continue
		}
		ms := rfi.Sym(mu.Map)
		if !(ms.K == KField && ms.Fld == votesF) {
			continue
		}
		nUpd++
		f := rfi.FactsAt(mu)
		guarded := false
		for _, a := range f.Atoms {
			if a.K == ABool && a.Neg && a.S.K == KExtract && a.S.Idx == 1 && a.S.Args[0].K == KIndex &&
				a.S.Args[0].Args[0].Key() == ms.Key() && a.S.Args[0].Args[1].Key() == rfi.Sym(mu.Key).Key() {
				guarded = true
			}
		}
		c.Result(guarded, rule+".first", "RecordVote map update", fnName(recordVote), p.site(mu), "Votes[id] is set only if id has not answered yet", strings.Join(f.Describe(), "; "))
	}
	if nUpd == 0 {
		c.Bad(rule+".first", "RecordVote map update", fnName(recordVote), p.Pos(recordVote.Pos()), "RecordVote stores into Votes", "no update found")
	}
	// writers of Votes (whole map) and element updates
	mkTracker := p.Func("tracker", "MakeProgressTracker")
	for _, st := range p.StoresTo(votesF) {
		ok := st.Fresh || st.Fn == resetVotes
		if st.Whole && !ok {
			// replacing the whole tracker by a freshly constructed one
			v := p.Info(st.Fn).Sym(st.Val)
			ok = v.K == KCall && v.Fn == mkTracker && mkTracker != nil
		}
		c.Result(ok, rule+".votes", "store ProgressTracker.Votes", fnName(st.Fn), p.site(st.Instr), "only ResetVotes and the constructor replace the vote map", "")
	}
	for _, fn := range p.RuleFuncs {
		ffi := p.Info(fn)
		for _, in := range p.liveInstrsOf(fn) {
			if mu, ok := in.(*ssa.MapUpdate); ok {
				ms := ffi.Sym(mu.Map)
				if ms.K == KField && ms.Fld == votesF && fn != recordVote {
					c.Bad(rule+".votes", "update of ProgressTracker.Votes", fnName(fn), p.site(mu), "only RecordVote inserts votes", "")
				}
			}
		}
	}
	// callers of RecordVote: only poll
	for _, cs := range p.CallsTo(recordVote) {
		c.Result(cs.Caller == poll, rule+".votes", "caller of RecordVote", fnName(cs.Caller), p.site(cs.Instr), "only raft.poll records votes", "")
	}
	// ResetVotes is called by reset and becomePreCandidate on every path
	becomePre := p.Method("raft", "raft", "becomePreCandidate")
	for _, fn := range []*ssa.Function{reset, becomePre} {
		if fn == nil {
			continue
		}
		ffi := p.Info(fn)
		ok := false
		for _, ci := range p.CallsIn(fn, resetVotes) {
			if mustPass(ffi, ci) {
				ok = true
			}
		}
		c.Result(ok, rule+".reset", "ResetVotes on every path", fnName(fn), p.Pos(fn.Pos()), "votes of an earlier candidacy are discarded", "")
	}
	// every becomeX except becomePreCandidate calls reset on every path
	for _, name := range []string{"becomeFollower", "becomeCandidate", "becomeLeader"} {
		fn := p.Method("raft", "raft", name)
		if fn == nil {
			continue
		}
		ffi := p.Info(fn)
		ok := false
		for _, ci := range p.CallsIn(fn, reset) {
			if mustPass(ffi, ci) {
				ok = true
			}
		}
		c.Result(ok, rule+".reset", "reset on every path", fnName(fn), p.Pos(fn.Pos()), name+" resets per-term state", "")
	}
	// campaign does not count its own vote directly
	if campaign != nil {
		bad := p.Reaches(campaign, recordVote) || p.Reaches(campaign, poll)
		c.Result(!bad, rule+".self", "campaign does not record a vote", fnName(campaign), p.Pos(campaign.Pos()), "the candidate's own vote is delivered as a self-addressed response, never recorded directly", "")
	}
}
