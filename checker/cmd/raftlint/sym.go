package main

import (
	"fmt"
	"go/constant"
	"go/token"
	"go/types"
	"os"
	"sort"
	"strings"

	"golang.org/x/tools/go/ssa"
)

// Sym is the canonical symbolic form of an SSA value (DESIGN §2.1): an access
// path over parameters, allocations and call results, with integer
// arithmetic kept as a tree that linOf flattens into a linear form.
type SymKind int

const (
	KOpaque SymKind = iota
	KConst
	KNil
	KParam
	KFree
	KGlobal
	KAlloc
	KField   // Args[0].Fld (through pointer or value)
	KIndex   // Args[0][Args[1]]
	KCall    // Fn(Args...) or Method invoke
	KBuiltin // Name(Args...): len, cap, min, max, append
	KBin     // Args[0] Name Args[1]
	KNot     // !Args[0]
	KNeg
	KExtract // Args[0].#Idx
	KSlice   // Args[0][Args[1]:Args[2]:Args[3]] (nil args -> KNil)
	KPhi
	KFunc    // function value / closure
	KAddr    // &Args[0] (address of a location)
	KDeref   // *Args[0] of a pointer whose target is not a known location
	KConvert // interface conversions etc. are transparent; this is for string/bytes conversions
	KLit     // struct literal: Args[i] is the value of field i
)

type Sym struct {
	K     SymKind
	V     ssa.Value // originating value (identity for opaque kinds)
	Fld   *types.Var
	Fn    *ssa.Function // static callee
	Meth  *types.Func   // interface method
	Name  string
	Idx   int
	Args  []*Sym
	C     constant.Value
	Typ   types.Type
	Loads []ssa.Instruction // heap reads this value depends on (load, call, lookup)
	key   string
}

func (s *Sym) Key() string {
	if s == nil {
		return "<nil>"
	}
	if s.key != "" {
		return s.key
	}
	var b strings.Builder
	switch s.K {
	case KOpaque:
		fmt.Fprintf(&b, "?%s", valID(s.V))
	case KConst:
		if s.C == nil {
			b.WriteString("zero")
		} else {
			b.WriteString(s.C.ExactString())
		}
	case KNil:
		b.WriteString("nil")
	case KParam:
		fmt.Fprintf(&b, "$%s", s.Name)
	case KFree:
		fmt.Fprintf(&b, "^%s", s.Name)
	case KGlobal:
		fmt.Fprintf(&b, "@%s", s.Name)
	case KAlloc:
		fmt.Fprintf(&b, "new#%s", valID(s.V))
	case KField:
		fmt.Fprintf(&b, "%s.%s", s.Args[0].Key(), s.Fld.Name())
	case KIndex:
		fmt.Fprintf(&b, "%s[%s]", s.Args[0].Key(), s.Args[1].Key())
	case KCall:
		name := s.Name
		if s.Fn != nil && s.Fn.Signature.Recv() != nil && len(s.Args) > 0 {
			fmt.Fprintf(&b, "%s.%s(", s.Args[0].Key(), s.Fn.Name())
			for i, a := range s.Args[1:] {
				if i > 0 {
					b.WriteString(",")
				}
				b.WriteString(a.Key())
			}
			b.WriteString(")")
		} else if s.Meth != nil && len(s.Args) > 0 {
			fmt.Fprintf(&b, "%s.%s(", s.Args[0].Key(), s.Meth.Name())
			for i, a := range s.Args[1:] {
				if i > 0 {
					b.WriteString(",")
				}
				b.WriteString(a.Key())
			}
			b.WriteString(")")
		} else {
			fmt.Fprintf(&b, "%s(", name)
			for i, a := range s.Args {
				if i > 0 {
					b.WriteString(",")
				}
				b.WriteString(a.Key())
			}
			b.WriteString(")")
		}
		if s.V != nil && s.Idx == -1 { // impure: identity of the call matters
			fmt.Fprintf(&b, "#%s", valID(s.V))
		}
	case KBuiltin:
		args := make([]string, len(s.Args))
		for i, a := range s.Args {
			args[i] = a.Key()
		}
		if s.Name == "min" || s.Name == "max" {
			sort.Strings(args)
		}
		fmt.Fprintf(&b, "%s(%s)", s.Name, strings.Join(args, ","))
	case KBin:
		fmt.Fprintf(&b, "(%s%s%s)", s.Args[0].Key(), s.Name, s.Args[1].Key())
	case KNot:
		fmt.Fprintf(&b, "!%s", s.Args[0].Key())
	case KNeg:
		fmt.Fprintf(&b, "-%s", s.Args[0].Key())
	case KExtract:
		fmt.Fprintf(&b, "%s#%d", s.Args[0].Key(), s.Idx)
	case KSlice:
		fmt.Fprintf(&b, "%s[%s:%s:%s]", s.Args[0].Key(), s.Args[1].Key(), s.Args[2].Key(), s.Args[3].Key())
	case KPhi:
		fmt.Fprintf(&b, "phi#%s", valID(s.V))
	case KFunc:
		fmt.Fprintf(&b, "func:%s", s.Name)
	case KAddr:
		fmt.Fprintf(&b, "&%s", s.Args[0].Key())
	case KDeref:
		fmt.Fprintf(&b, "*%s", s.Args[0].Key())
	case KConvert:
		fmt.Fprintf(&b, "conv:%s(%s)", s.Name, s.Args[0].Key())
	case KLit:
		b.WriteString("{")
		for i, a := range s.Args {
			if i > 0 {
				b.WriteString(",")
			}
			b.WriteString(a.Key())
		}
		b.WriteString("}")
	}
	s.key = b.String()
	return s.key
}

func (s *Sym) String() string { return s.Key() }

func valID(v ssa.Value) string {
	if v == nil {
		return "?"
	}
	if in, ok := v.(ssa.Instruction); ok && in.Parent() != nil {
		return fmt.Sprintf("%s@{%s}", v.Name(), shortFn(in.Parent()))
	}
	return v.Name()
}

func shortFn(fn *ssa.Function) string {
	s := fnName(fn)
	if i := strings.LastIndex(s, "/"); i >= 0 {
		s = s[i+1:]
	}
	return s
}

// Root returns the leftmost symbol of an access path.
func (s *Sym) Root() *Sym {
	for {
		switch s.K {
		case KField, KIndex, KExtract, KSlice, KAddr, KDeref, KConvert:
			s = s.Args[0]
		case KCall:
			if (s.Fn != nil && s.Fn.Signature.Recv() != nil || s.Meth != nil) && len(s.Args) > 0 {
				s = s.Args[0]
			} else {
				return s
			}
		default:
			return s
		}
	}
}

// Walk visits s and all sub-symbols.
func (s *Sym) Walk(f func(*Sym)) {
	if s == nil {
		return
	}
	f(s)
	for _, a := range s.Args {
		a.Walk(f)
	}
}

// Contains reports whether sub (by key) occurs in s.
func (s *Sym) Contains(key string) bool {
	found := false
	s.Walk(func(x *Sym) {
		if x.Key() == key {
			found = true
		}
	})
	return found
}

func allLoads(s *Sym) []ssa.Instruction {
	var out []ssa.Instruction
	seen := map[ssa.Instruction]bool{}
	s.Walk(func(x *Sym) {
		for _, l := range x.Loads {
			if !seen[l] {
				seen[l] = true
				out = append(out, l)
			}
		}
	})
	return out
}

// ---- construction ------------------------------------------------------------

const symDepthLimit = 24

// Sym canonicalises an SSA value of this function.
func (fi *FuncInfo) Sym(v ssa.Value) *Sym {
	return fi.sym(v, 0)
}

func (fi *FuncInfo) sym(v ssa.Value, depth int) *Sym {
	if v == nil {
		return &Sym{K: KNil}
	}
	if s, ok := fi.syms[v]; ok {
		return s
	}
	if depth > symDepthLimit {
		return &Sym{K: KOpaque, V: v, Typ: v.Type()}
	}
	s := fi.sym1(v, depth)
	if s.Typ == nil {
		s.Typ = v.Type()
	}
	fi.syms[v] = s
	return s
}

func isIntType(t types.Type) bool {
	b, ok := t.Underlying().(*types.Basic)
	return ok && b.Info()&types.IsInteger != 0
}

func (fi *FuncInfo) sym1(v ssa.Value, depth int) *Sym {
	p := fi.P
	rec := func(x ssa.Value) *Sym { return fi.sym(x, depth+1) }
	switch v := v.(type) {
	case *ssa.Const:
		if v.Value == nil {
			// zero value: nil for pointer-like, zero otherwise
			switch v.Type().Underlying().(type) {
			case *types.Pointer, *types.Slice, *types.Map, *types.Interface, *types.Signature, *types.Chan:
				return &Sym{K: KNil, Typ: v.Type()}
			}
			if isIntType(v.Type()) {
				return &Sym{K: KConst, C: constant.MakeInt64(0), Typ: v.Type()}
			}
			return &Sym{K: KConst, C: nil, Typ: v.Type(), Name: "zero"}
		}
		return &Sym{K: KConst, C: v.Value, Typ: v.Type()}
	case *ssa.Parameter:
		return &Sym{K: KParam, V: v, Name: v.Name()}
	case *ssa.FreeVar:
		return &Sym{K: KFree, V: v, Name: v.Name()}
	case *ssa.Global:
		return &Sym{K: KAddr, Args: []*Sym{{K: KGlobal, V: v, Name: v.Name()}}}
	case *ssa.Function:
		return &Sym{K: KFunc, V: v, Fn: v, Name: fnName(v)}
	case *ssa.MakeClosure:
		f := v.Fn.(*ssa.Function)
		s := &Sym{K: KFunc, V: v, Fn: f, Name: fnName(f)}
		return s
	case *ssa.Alloc:
		return &Sym{K: KAlloc, V: v}
	case *ssa.MakeMap, *ssa.MakeSlice, *ssa.MakeChan:
		return &Sym{K: KAlloc, V: v}
	case *ssa.FieldAddr:
		base := rec(v.X)
		st := derefStruct(v.X.Type())
		if st == nil {
			return &Sym{K: KOpaque, V: v}
		}
		// &base.f ; base is a pointer: location is (*base).f
		loc := &Sym{K: KField, Fld: st.Field(v.Field), Args: []*Sym{derefLoc(base)}}
		return &Sym{K: KAddr, Args: []*Sym{loc}}
	case *ssa.Field:
		st, _ := v.X.Type().Underlying().(*types.Struct)
		if st == nil {
			return &Sym{K: KOpaque, V: v}
		}
		return simplifyField(&Sym{K: KField, Fld: st.Field(v.Field), Args: []*Sym{rec(v.X)}})
	case *ssa.IndexAddr:
		base := rec(v.X)
		// X is slice, or pointer to array
		var cont *Sym
		if _, ok := v.X.Type().Underlying().(*types.Pointer); ok {
			cont = derefLoc(base)
		} else {
			cont = base
		}
		loc := &Sym{K: KIndex, Args: []*Sym{cont, rec(v.Index)}}
		return &Sym{K: KAddr, Args: []*Sym{loc}}
	case *ssa.Index:
		return &Sym{K: KIndex, Args: []*Sym{rec(v.X), rec(v.Index)}}
	case *ssa.Lookup:
		s := &Sym{K: KIndex, Args: []*Sym{rec(v.X), rec(v.Index)}, Loads: []ssa.Instruction{v}}
		if v.CommaOk {
			s.Name = "commaok"
		}
		return s
	case *ssa.UnOp:
		switch v.Op {
		case token.MUL: // load
			a := rec(v.X)
			if a.K == KAddr {
				loc := a.Args[0]
				// single-assignment local cell: read through to the stored value
				if loc.K == KAlloc {
					if sv := fi.singleStore(loc.V); sv != nil {
						return rec(sv)
					}
				}
				// field of a local struct cell that is written exactly once as a whole
				if r := loc.Root(); r.K == KAlloc && (loc.K == KField || loc.K == KIndex) {
					if whole := fi.structCellValue(r.V); whole != nil {
						return simplifyField(substRoot(loc, r, rec(whole)))
					}
					if lit := fi.structLit(r.V, depth); lit != nil {
						return simplifyField(substRoot(loc, r, lit))
					}
				}
				cp := *loc
				cp.key = ""
				cp.Loads = append(append([]ssa.Instruction{}, loc.Loads...), v)
				return simplifyField(&cp)
			}
			if a.K == KAlloc {
				if sv := fi.singleStore(a.V); sv != nil {
					return rec(sv)
				}
				if whole := fi.structCellValue(a.V); whole != nil {
					return rec(whole)
				}
				if lit := fi.structLit(a.V, depth); lit != nil {
					return lit
				}
			}
			return &Sym{K: KDeref, Args: []*Sym{a}, Loads: []ssa.Instruction{v}}
		case token.NOT:
			return &Sym{K: KNot, Args: []*Sym{rec(v.X)}}
		case token.SUB:
			return &Sym{K: KNeg, Args: []*Sym{rec(v.X)}}
		}
		return &Sym{K: KOpaque, V: v}
	case *ssa.BinOp:
		return &Sym{K: KBin, Name: v.Op.String(), Args: []*Sym{rec(v.X), rec(v.Y)}}
	case *ssa.Convert:
		ft, tt := v.X.Type().Underlying(), v.Type().Underlying()
		if fb, ok := ft.(*types.Basic); ok {
			if tb, ok := tt.(*types.Basic); ok && fb.Info()&types.IsInteger != 0 && tb.Info()&types.IsInteger != 0 {
				return rec(v.X) // integer conversions are transparent (widths are not modelled)
			}
		}
		return &Sym{K: KConvert, Name: types.TypeString(v.Type(), nil), Args: []*Sym{rec(v.X)}}
	case *ssa.ChangeType:
		return rec(v.X)
	case *ssa.ChangeInterface:
		return rec(v.X)
	case *ssa.MakeInterface:
		return rec(v.X)
	case *ssa.SliceToArrayPointer:
		return rec(v.X)
	case *ssa.TypeAssert:
		if v.CommaOk {
			return &Sym{K: KOpaque, V: v}
		}
		return rec(v.X)
	case *ssa.Extract:
		t := rec(v.Tuple)
		return &Sym{K: KExtract, Idx: v.Index, Args: []*Sym{t}}
	case *ssa.Slice:
		base := rec(v.X)
		if _, ok := v.X.Type().Underlying().(*types.Pointer); ok {
			base = derefLoc(base)
		}
		return &Sym{K: KSlice, Args: []*Sym{base, rec(v.Low), rec(v.High), rec(v.Max)}}
	case *ssa.Phi:
		return &Sym{K: KPhi, V: v}
	case *ssa.Call:
		cc := v.Common()
		var args []*Sym
		if cc.IsInvoke() {
			args = append(args, rec(cc.Value))
			for _, a := range cc.Args {
				args = append(args, rec(a))
			}
			return &Sym{K: KCall, V: v, Meth: cc.Method, Name: cc.Method.Name(), Args: args, Idx: -1, Loads: []ssa.Instruction{v}}
		}
		if b, ok := cc.Value.(*ssa.Builtin); ok {
			for _, a := range cc.Args {
				args = append(args, rec(a))
			}
			return &Sym{K: KBuiltin, Name: b.Name(), Args: args, V: v}
		}
		for _, a := range cc.Args {
			args = append(args, rec(a))
		}
		callee := cc.StaticCallee()
		if callee == nil {
			fv := rec(cc.Value)
			return &Sym{K: KCall, V: v, Name: "dyn:" + fv.Key(), Args: args, Idx: -1, Loads: []ssa.Instruction{v}}
		}
		if callee.Origin() != nil {
			// instantiated generic: name by origin
		}
		s := &Sym{K: KCall, V: v, Fn: callee, Name: fnName(callee), Args: args, Loads: []ssa.Instruction{v}}
		if p.IsPure(callee) {
			s.Idx = 0
		} else {
			s.Idx = -1
		}
		return s
	}
	return &Sym{K: KOpaque, V: v}
}

// derefLoc turns a pointer-valued symbol into the location it points to.
func derefLoc(ptr *Sym) *Sym {
	if ptr.K == KAddr {
		return ptr.Args[0]
	}
	return ptr // path steps through pointers are implicit: p.f means (*p).f
}

func derefStruct(t types.Type) *types.Struct {
	pt, ok := t.Underlying().(*types.Pointer)
	if !ok {
		return nil
	}
	st, _ := pt.Elem().Underlying().(*types.Struct)
	return st
}

// singleStore returns the only value ever stored into a local cell whose
// address does not escape other than into stores/loads and composite field
// initialisers (the `new(expr)` idiom), or nil.
func (fi *FuncInfo) singleStore(cell ssa.Value) ssa.Value {
	al, ok := cell.(*ssa.Alloc)
	if !ok {
		return nil
	}
	var stored ssa.Value
	n := 0
	for _, ref := range *al.Referrers() {
		switch r := ref.(type) {
		case *ssa.Store:
			if r.Addr == al {
				n++
				stored = r.Val
			}
		case *ssa.MakeClosure:
			// captured by reference: fine as long as no closure writes the variable
			for i, b := range r.Bindings {
				if b == al && closureWritesFreeVar(r.Fn.(*ssa.Function), i, 0) {
					return nil
				}
			}
		}
	}
	if n != 1 {
		return nil
	}
	// must be a scalar cell (new(x) of basic/pointer type)
	switch al.Type().(*types.Pointer).Elem().Underlying().(type) {
	case *types.Struct, *types.Array:
		return nil
	}
	return stored
}

// PointeeOf returns the symbolic value stored in the fresh cell a pointer
// value refers to (for protobuf optional fields: `Term: new(r.Term)`).
func (fi *FuncInfo) PointeeOf(ptr ssa.Value) *Sym {
	switch x := ptr.(type) {
	case *ssa.Alloc:
		if sv := fi.singleStore(x); sv != nil {
			return fi.Sym(sv)
		}
	case *ssa.Call:
		// pb.MsgApp.Enum() and friends: value is the receiver
		if callee := x.Common().StaticCallee(); callee != nil && callee.Name() == "Enum" && len(x.Common().Args) == 1 {
			return fi.Sym(x.Common().Args[0])
		}
	case *ssa.UnOp:
		if x.Op == token.MUL {
			// copying another message's optional field pointer: m.From -> value m.GetFrom()
			s := fi.Sym(x)
			return &Sym{K: KDeref, Args: []*Sym{s}, Loads: s.Loads}
		}
	case *ssa.Phi:
		return &Sym{K: KPhi, V: x}
	}
	return &Sym{K: KDeref, Args: []*Sym{fi.Sym(ptr)}}
}

func constInt64(v constant.Value) (int64, bool) {
	if v == nil {
		return 0, false
	}
	if v.Kind() != constant.Int {
		return 0, false
	}
	if i, ok := constant.Int64Val(v); ok {
		return i, true
	}
	if u, ok := constant.Uint64Val(v); ok {
		if u == ^uint64(0) {
			return -1, true // all-ones: only used as a sentinel (noLimit / MaxUint64)
		}
		return int64(u), true
	}
	return 0, false
}

// Subst replaces parameter symbols according to m (keyed by parameter value).
func Subst(s *Sym, m map[ssa.Value]*Sym) *Sym {
	if s == nil {
		return nil
	}
	if (s.K == KParam || s.K == KFree) && m[s.V] != nil {
		return m[s.V]
	}
	if len(s.Args) == 0 {
		return s
	}
	changed := false
	args := make([]*Sym, len(s.Args))
	for i, a := range s.Args {
		args[i] = Subst(a, m)
		if args[i] != a {
			changed = true
		}
	}
	if !changed {
		return s
	}
	cp := *s
	cp.Args = args
	cp.key = ""
	cp.Loads = nil // loads of the callee are re-interpreted at the call site
	return &cp
}

// structCellValue: a local struct cell that receives exactly one whole-value
// store and no field stores (a spilled parameter or call result).
func (fi *FuncInfo) structCellValue(cell ssa.Value) ssa.Value {
	al, ok := cell.(*ssa.Alloc)
	if !ok || al.Heap {
		return nil
	}
	switch al.Type().(*types.Pointer).Elem().Underlying().(type) {
	case *types.Struct, *types.Array:
	default:
		return nil
	}
	var stored ssa.Value
	n := 0
	for _, ref := range *al.Referrers() {
		switch r := ref.(type) {
		case *ssa.Store:
			if r.Addr == al {
				n++
				stored = r.Val
			}
		case *ssa.FieldAddr:
			if fieldAddrWritten(r) {
				return nil
			}
		case *ssa.IndexAddr:
			if indexAddrWritten(r) {
				return nil
			}
		case *ssa.Slice:
			return nil
		case *ssa.MakeClosure:
			return nil
		case *ssa.Call:
			// address passed to a pointer-receiver method: may write
			if callee := r.Common().StaticCallee(); callee == nil || !fi.P.IsPure(callee) {
				return nil
			}
		}
	}
	if n != 1 {
		return nil
	}
	return stored
}

func indexAddrWritten(ia *ssa.IndexAddr) bool {
	for _, ref := range *ia.Referrers() {
		switch r := ref.(type) {
		case *ssa.Store:
			if r.Addr == ia {
				return true
			}
		case *ssa.UnOp:
		case *ssa.FieldAddr:
			if fieldAddrWritten(r) {
				return true
			}
		default:
			return true
		}
	}
	return false
}

func fieldAddrWritten(fa *ssa.FieldAddr) bool {
	for _, ref := range *fa.Referrers() {
		switch r := ref.(type) {
		case *ssa.Store:
			if r.Addr == fa {
				return true
			}
		case *ssa.FieldAddr:
			if fieldAddrWritten(r) {
				return true
			}
		case *ssa.UnOp:
		default:
			_ = r
			return true // address escapes
		}
	}
	return false
}

// structLit: a local struct cell initialised field by field (composite
// literal), each field at most once, never stored as a whole.
func (fi *FuncInfo) structLit(cell ssa.Value, depth int) *Sym {
	al, ok := cell.(*ssa.Alloc)
	if !ok || al.Heap {
		return nil
	}
	st, ok := al.Type().(*types.Pointer).Elem().Underlying().(*types.Struct)
	if !ok {
		return nil
	}
	vals := make([]ssa.Value, st.NumFields())
	nested := make([]*ssa.FieldAddr, st.NumFields())
	for _, ref := range *al.Referrers() {
		switch r := ref.(type) {
		case *ssa.Store:
			if r.Addr == al {
				return nil
			}
		case *ssa.FieldAddr:
			for _, rr := range *r.Referrers() {
				switch s := rr.(type) {
				case *ssa.Store:
					if s.Addr == r {
						if vals[r.Field] != nil {
							return nil
						}
						vals[r.Field] = s.Val
					}
				case *ssa.FieldAddr:
					nested[r.Field] = r
				}
			}
		case *ssa.MakeClosure:
			return nil
		}
	}
	lit := &Sym{K: KLit, V: al, Typ: al.Type().(*types.Pointer).Elem()}
	for i := range vals {
		switch {
		case vals[i] != nil:
			lit.Args = append(lit.Args, fi.sym(vals[i], depth+1))
		case nested[i] != nil:
			lit.Args = append(lit.Args, fi.nestedLit(nested[i], depth+1))
		default:
			lit.Args = append(lit.Args, zeroSym(st.Field(i).Type()))
		}
	}
	return lit
}

func (fi *FuncInfo) nestedLit(fa *ssa.FieldAddr, depth int) *Sym {
	st, ok := fa.Type().(*types.Pointer).Elem().Underlying().(*types.Struct)
	if !ok {
		return &Sym{K: KOpaque, V: fa}
	}
	lit := &Sym{K: KLit, V: fa, Typ: fa.Type().(*types.Pointer).Elem()}
	vals := make([]*Sym, st.NumFields())
	for _, rr := range *fa.Referrers() {
		if f2, ok := rr.(*ssa.FieldAddr); ok {
			for _, r3 := range *f2.Referrers() {
				if s, ok := r3.(*ssa.Store); ok && s.Addr == f2 {
					vals[f2.Field] = fi.sym(s.Val, depth+1)
				}
			}
		}
	}
	for i := range vals {
		if vals[i] == nil {
			vals[i] = zeroSym(st.Field(i).Type())
		}
		lit.Args = append(lit.Args, vals[i])
	}
	return lit
}

func zeroSym(t types.Type) *Sym {
	switch t.Underlying().(type) {
	case *types.Pointer, *types.Slice, *types.Map, *types.Interface, *types.Signature, *types.Chan:
		return &Sym{K: KNil, Typ: t}
	}
	if isIntType(t) {
		return &Sym{K: KConst, C: constant.MakeInt64(0), Typ: t}
	}
	if b, ok := t.Underlying().(*types.Basic); ok && b.Info()&types.IsBoolean != 0 {
		return &Sym{K: KConst, C: constant.MakeBool(false), Typ: t}
	}
	return &Sym{K: KConst, Name: "zero", Typ: t}
}

// simplifyField resolves lit.f to the literal's component.
func simplifyField(s *Sym) *Sym {
	if s.K != KField || len(s.Args) == 0 {
		return s
	}
	base := s.Args[0]
	if base.K == KField {
		nb := simplifyField(base)
		if nb != base {
			cp := *s
			cp.Args = []*Sym{nb}
			cp.key = ""
			s = &cp
			base = nb
		}
	}
	if base.K == KLit {
		if st, ok := base.Typ.Underlying().(*types.Struct); ok {
			for i := 0; i < st.NumFields(); i++ {
				if st.Field(i) == s.Fld && i < len(base.Args) {
					return base.Args[i]
				}
			}
			if os.Getenv("RAFTLINT_DEBUG") != "" {
				fmt.Fprintf(os.Stderr, "simplifyField: no match fld=%v in %v (%d args)\n", s.Fld, st, len(base.Args))
			}
		} else if os.Getenv("RAFTLINT_DEBUG") != "" {
			fmt.Fprintf(os.Stderr, "simplifyField: KLit of non-struct %v\n", base.Typ)
		}
	}
	return s
}

// substRoot rebuilds path with root r replaced by nr.
func substRoot(path, r, nr *Sym) *Sym {
	if path == r {
		return nr
	}
	if len(path.Args) == 0 {
		return path
	}
	cp := *path
	cp.key = ""
	cp.Args = append([]*Sym{}, path.Args...)
	cp.Args[0] = substRoot(path.Args[0], r, nr)
	return &cp
}

// closureWritesFreeVar: does fn (or a closure nested in it that re-captures the
// variable) store to its i-th free variable?
func closureWritesFreeVar(fn *ssa.Function, i int, depth int) bool {
	if depth > 4 || i >= len(fn.FreeVars) {
		return true
	}
	fv := fn.FreeVars[i]
	for _, ref := range *fv.Referrers() {
		switch r := ref.(type) {
		case *ssa.Store:
			if r.Addr == fv {
				return true
			}
		case *ssa.UnOp:
		case *ssa.MakeClosure:
			for j, b := range r.Bindings {
				if b == fv && closureWritesFreeVar(r.Fn.(*ssa.Function), j, depth+1) {
					return true
				}
			}
		case *ssa.DebugRef:
		default:
			return true
		}
	}
	return false
}
