package main

import (
	"go/token"
	"go/types"

	"golang.org/x/tools/go/ssa"
)

// Sink is one place a value (or a container that holds it) ends up.
type Sink struct {
	Kind  string // "field" (stored into a struct field), "return", "arg" (non-builtin call), "elem" (stored into a non-local container), "len", "read" (getter / comparison), "range", "other"
	Field *types.Var
	Instr ssa.Instruction
	Arg   int
	// Via records whether the value reached the sink as itself ("self"), as an
	// element of a slice built around it ("elem"), or as the base slice of an
	// append ("base").
	Via string
}

// ForwardSinks follows a value forward through phis, variadic packing,
// append, slicing and conversions, and reports where it ends.
func (fi *FuncInfo) ForwardSinks(v ssa.Value) []Sink {
	var out []Sink
	type item struct {
		v   ssa.Value
		via string
	}
	seen := map[ssa.Value]bool{}
	work := []item{{v, "self"}}
	for len(work) > 0 {
		it := work[len(work)-1]
		work = work[:len(work)-1]
		if seen[it.v] {
			continue
		}
		seen[it.v] = true
		refs := it.v.Referrers()
		if refs == nil {
			continue
		}
		for _, ref := range *refs {
			if !fi.Live(ref) {
				continue
			}
			switch r := ref.(type) {
			case *ssa.Phi:
				work = append(work, item{r, it.via})
			case *ssa.ChangeType, *ssa.MakeInterface, *ssa.ChangeInterface, *ssa.Convert:
				work = append(work, item{r.(ssa.Value), it.via})
			case *ssa.Slice:
				if r.X == it.v {
					work = append(work, item{r, it.via})
				}
			case *ssa.Store:
				if r.Val != it.v {
					continue // the value is the address being stored to
				}
				switch a := r.Addr.(type) {
				case *ssa.FieldAddr:
					st := derefStruct(a.X.Type())
					out = append(out, Sink{Kind: "field", Field: st.Field(a.Field), Instr: r, Via: it.via})
				case *ssa.IndexAddr:
					// element of an array/slice: local variadic array or a real container
					root := rootOfAddr(a)
					via := "elem"
					if it.via == "elemof" {
						via = "elemof"
					}
					if al, ok := root.(*ssa.Alloc); ok && !allocCaptured(al) {
						work = append(work, item{al, via})
					} else if mk, ok := root.(*ssa.MakeSlice); ok {
						work = append(work, item{mk, via})
					} else {
						out = append(out, Sink{Kind: "elem", Instr: r, Via: it.via})
					}
				case *ssa.Alloc:
					// local variable cell: follow its loads
					for _, rr := range *a.Referrers() {
						if ld, ok := rr.(*ssa.UnOp); ok && ld.Op == token.MUL {
							work = append(work, item{ld, it.via})
						}
					}
					if allocCaptured(a) {
						out = append(out, Sink{Kind: "other", Instr: r, Via: it.via})
					}
				default:
					out = append(out, Sink{Kind: "other", Instr: r, Via: it.via})
				}
			case *ssa.MapUpdate:
				if r.Value == it.v {
					out = append(out, Sink{Kind: "elem", Instr: r, Via: it.via})
				}
			case *ssa.Return:
				out = append(out, Sink{Kind: "return", Instr: r, Via: it.via})
			case *ssa.Call:
				cc := r.Common()
				if b, ok := cc.Value.(*ssa.Builtin); ok {
					switch b.Name() {
					case "len", "cap":
						out = append(out, Sink{Kind: "len", Instr: r, Via: it.via})
					case "append":
						if len(cc.Args) > 0 && cc.Args[0] == it.v {
							via := it.via
							if via == "self" {
								via = "base"
							}
							work = append(work, item{r, via})
						} else {
							// spread or packed elements
							via := it.via
							if via == "self" || via == "base" {
								via = "elem"
							}
							work = append(work, item{r, via})
						}
					case "copy":
						out = append(out, Sink{Kind: "other", Instr: r, Via: it.via})
					default:
						out = append(out, Sink{Kind: "read", Instr: r, Via: it.via})
					}
					continue
				}
				args := callArgs(r)
				for i, a := range args {
					if a == it.v {
						out = append(out, Sink{Kind: "arg", Instr: r, Arg: i, Via: it.via})
					}
				}
				if cc.Value == it.v {
					out = append(out, Sink{Kind: "other", Instr: r, Via: it.via})
				}
			case *ssa.Defer, *ssa.Go:
				out = append(out, Sink{Kind: "other", Instr: ref, Via: it.via})
			case *ssa.IndexAddr:
				if r.X == it.v {
					// element access of a slice we follow: loads give elements
					for _, rr := range *r.Referrers() {
						if ld, ok := rr.(*ssa.UnOp); ok && ld.Op == token.MUL {
							work = append(work, item{ld, "elemof"})
						}
						if st, ok := rr.(*ssa.Store); ok && st.Addr == r && (it.via == "self" || it.via == "base") {
							// overwriting an element of the container itself
							out = append(out, Sink{Kind: "other", Instr: st, Via: "overwrite"})
						}
					}
				}
			case *ssa.Range:
				out = append(out, Sink{Kind: "range", Instr: r, Via: it.via})
			case *ssa.BinOp, *ssa.If:
				out = append(out, Sink{Kind: "read", Instr: ref, Via: it.via})
			case *ssa.FieldAddr:
				// field access through a pointer value (reads / writes of its fields) – not a flow of the value itself
			case *ssa.UnOp:
				if r.Op == token.MUL {
					work = append(work, item{r, it.via})
				}
			case *ssa.Extract, *ssa.TypeAssert, *ssa.Index, *ssa.Lookup, *ssa.Field:
				out = append(out, Sink{Kind: "read", Instr: ref, Via: it.via})
			case *ssa.DebugRef:
			case *ssa.MakeClosure:
				out = append(out, Sink{Kind: "other", Instr: r, Via: it.via})
			default:
				out = append(out, Sink{Kind: "other", Instr: ref, Via: it.via})
			}
		}
	}
	return out
}

// FieldLoads returns the load instructions of field f in rule scope.
func (p *Prog) FieldLoads(f *types.Var) []*ssa.UnOp {
	var out []*ssa.UnOp
	for _, fn := range p.RuleFuncs {
		for _, in := range p.liveInstrsOf(fn) {
			ld, ok := in.(*ssa.UnOp)
			if !ok || ld.Op != token.MUL {
				continue
			}
			fa, ok := ld.X.(*ssa.FieldAddr)
			if !ok {
				continue
			}
			if st := derefStruct(fa.X.Type()); st != nil && st.Field(fa.Field) == f {
				out = append(out, ld)
			}
		}
	}
	return out
}

// appendParts decomposes `append(base, x...)`/`append(base, a, b)` into its
// base and the appended element values or spread slice.
func appendParts(v ssa.Value) (base ssa.Value, elems []ssa.Value, spread ssa.Value, ok bool) {
	call, isCall := v.(*ssa.Call)
	if !isCall {
		return nil, nil, nil, false
	}
	b, isB := call.Common().Value.(*ssa.Builtin)
	if !isB || b.Name() != "append" || len(call.Common().Args) != 2 {
		return nil, nil, nil, false
	}
	base = call.Common().Args[0]
	second := call.Common().Args[1]
	if sl, isSl := second.(*ssa.Slice); isSl {
		if al, isAl := sl.X.(*ssa.Alloc); isAl {
			// packed variadic arguments
			for _, ref := range *al.Referrers() {
				if ia, ok := ref.(*ssa.IndexAddr); ok {
					for _, r2 := range *ia.Referrers() {
						if st, ok := r2.(*ssa.Store); ok && st.Addr == ia {
							elems = append(elems, st.Val)
						}
					}
				}
			}
			return base, elems, nil, true
		}
	}
	return base, nil, second, true
}
