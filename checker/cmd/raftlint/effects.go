package main

import (
	"fmt"
	"go/token"
	"go/types"
	"os"
	"strings"

	"golang.org/x/tools/go/callgraph"
	"golang.org/x/tools/go/ssa"
)

// Loc is an abstract memory location class: a struct field (*types.Var), a
// container element class (string "elem:<type>"), a pointer target class
// ("deref:<type>"), a global (*ssa.Global) or a local cell (*ssa.Alloc).
type Loc any

// Effects is the may-read / may-write summary of a function (DESIGN §2.3).
type Effects struct {
	Reads, Writes map[Loc]bool
	// WMask refines Writes: bit i (<63) = written through the object passed as
	// parameter i (receiver included); bit 63 = written through some other
	// (heap-loaded, global, captured) pointer.
	WMask map[Loc]uint64
	Other bool // go/chan/select/defer-with-effects or unknown external side effect on our state
}

const heapBit = uint64(1) << 63

func newEffects() *Effects {
	return &Effects{Reads: map[Loc]bool{}, Writes: map[Loc]bool{}, WMask: map[Loc]uint64{}}
}

func (e *Effects) addWrite(l Loc, mask uint64) bool {
	if mask == 0 {
		return false
	}
	old := e.WMask[l]
	if old|mask == old {
		return false
	}
	e.WMask[l] = old | mask
	e.Writes[l] = true
	return true
}

// rootMask classifies the root of a pointer/address value inside fn:
// parameter bit, 0 for fresh local objects, heapBit otherwise.
func rootMask(fn *ssa.Function, v ssa.Value) uint64 {
	return rootMaskD(fn, v, 0)
}

func rootMaskD(fn *ssa.Function, v ssa.Value, depth int) uint64 {
	root := rootOfAddr(v)
	switch r := root.(type) {
	case *ssa.Phi:
		if depth > 3 {
			return heapBit
		}
		var m uint64
		for _, e := range r.Edges {
			m |= rootMaskD(fn, e, depth+1)
		}
		return m
	case *ssa.Parameter:
		for i, p := range fn.Params {
			if p == r && i < 63 {
				return uint64(1) << uint(i)
			}
		}
		return heapBit
	case *ssa.Alloc:
		if allocCaptured(r) {
			return heapBit
		}
		return 0
	case *ssa.MakeSlice, *ssa.MakeMap:
		return 0
	}
	if isFreshValue(root, 0) {
		return 0
	}
	return heapBit
}

func elemClass(t types.Type) string {
	return "elem:" + types.TypeString(t.Underlying(), nil)
}
func derefClass(t types.Type) string {
	return "deref:" + types.TypeString(t, nil)
}

// ourField reports whether a field belongs to a struct declared in the repo.
func (p *Prog) ourField(f *types.Var) bool {
	if f.Pkg() == nil {
		return false
	}
	if !isOurPath(f.Pkg().Path()) || f.Pkg().Path() == pkgPaths["rafttest"] {
		return false
	}
	// protobuf runtime internals of generated messages
	switch f.Name() {
	case "state", "sizeCache", "unknownFields":
		if f.Pkg().Path() == pkgPaths["raftpb"] {
			return false
		}
	}
	return true
}

// addrLocs returns the location classes an address value may denote, and the
// root value of the access path.
func (p *Prog) addrLocs(addr ssa.Value) (locs []Loc, root ssa.Value) {
	switch a := addr.(type) {
	case *ssa.FieldAddr:
		st := derefStruct(a.X.Type())
		_, root = p.addrLocs(a.X)
		if st != nil {
			f := st.Field(a.Field)
			if p.ourField(f) {
				return []Loc{f}, root
			}
			return nil, root
		}
		return nil, root
	case *ssa.IndexAddr:
		_, root = p.addrLocs(a.X)
		t := a.X.Type()
		if pt, ok := t.Underlying().(*types.Pointer); ok {
			t = pt.Elem()
		}
		return []Loc{elemClass(t)}, root
	case *ssa.Alloc:
		return []Loc{a}, a
	case *ssa.Global:
		return []Loc{a}, a
	case *ssa.UnOp:
		if a.Op == token.MUL {
			_, root = p.addrLocs(a.X)
			if root == nil {
				root = a
			}
			// the pointer itself was loaded from memory: its target is a heap object
			pt, _ := a.Type().Underlying().(*types.Pointer)
			if pt != nil {
				return []Loc{derefClass(pt.Elem())}, a
			}
		}
		return nil, a
	case *ssa.FreeVar:
		// a captured variable is its own cell
		return []Loc{a}, a
	case *ssa.Parameter:
		if pt, ok := a.Type().Underlying().(*types.Pointer); ok {
			return []Loc{derefClass(pt.Elem())}, a
		}
		return nil, a
	case *ssa.Phi:
		if pt, ok := a.Type().Underlying().(*types.Pointer); ok {
			return []Loc{derefClass(pt.Elem())}, a
		}
		return nil, a
	case *ssa.Call:
		if pt, ok := a.Type().Underlying().(*types.Pointer); ok {
			return []Loc{derefClass(pt.Elem())}, a
		}
		return nil, a
	}
	return nil, addr
}

// rootOfAddr follows FieldAddr/IndexAddr chains to the base pointer value.
func rootOfAddr(addr ssa.Value) ssa.Value {
	for {
		switch a := addr.(type) {
		case *ssa.FieldAddr:
			addr = a.X
		case *ssa.IndexAddr:
			addr = a.X
		case *ssa.Slice:
			addr = a.X
		default:
			return addr
		}
	}
}

// storeLocs: locations written by a Store / MapUpdate instruction. A store of
// a whole struct writes every field of that struct type.
func (p *Prog) instrWrites(in ssa.Instruction) (locs []Loc, root ssa.Value) {
	switch s := in.(type) {
	case *ssa.Store:
		locs, _ = p.addrLocs(s.Addr)
		root = rootOfAddr(s.Addr)
		// whole-struct store
		if pt, ok := s.Addr.Type().Underlying().(*types.Pointer); ok {
			if st, ok := pt.Elem().Underlying().(*types.Struct); ok {
				for i := 0; i < st.NumFields(); i++ {
					if p.ourField(st.Field(i)) {
						locs = append(locs, st.Field(i))
					}
				}
			}
			// a store through a pointer to T may hit any field of type T whose
			// address is taken somewhere (captured variables are their own cells)
			_, isAlloc := root.(*ssa.Alloc)
			_, isFree := root.(*ssa.FreeVar)
			if !isAlloc && !(isFree && s.Addr == root) {
				if _, isFA := s.Addr.(*ssa.FieldAddr); !isFA {
					locs = append(locs, derefClass(pt.Elem()))
				}
			}
			if isFree && s.Addr == root {
				locs = append(locs, root)
			}
		}
		return locs, root
	case *ssa.MapUpdate:
		return []Loc{elemClass(s.Map.Type())}, s.Map
	}
	return nil, nil
}

func (p *Prog) instrReads(in ssa.Instruction) []Loc {
	switch s := in.(type) {
	case *ssa.UnOp:
		if s.Op == token.MUL {
			locs, _ := p.addrLocs(s.X)
			return locs
		}
	case *ssa.Lookup:
		return []Loc{elemClass(s.X.Type())}
	case *ssa.Range:
		return []Loc{elemClass(s.X.Type())}
	case *ssa.Index:
		return nil
	}
	return nil
}

// computeEffects builds transitive read/write summaries over the VTA graph.
func (p *Prog) computeEffects() {
	p.mods = map[*ssa.Function]*Effects{}
	// direct effects
	for fn := range p.CG.Nodes {
		if fn == nil {
			continue
		}
		e := newEffects()
		p.mods[fn] = e
		if fn.Blocks == nil {
			continue
		}
		pk := fnPkg(fn)
		ours := pk != nil && isOurPath(pk.Path())
		for _, b := range fn.Blocks {
			for _, in := range b.Instrs {
				if ours && pk.Path() == pkgPaths["raftpb"] {
					// generated code: only stores to message fields matter
					if s, ok := in.(*ssa.Store); ok {
						if fa, ok := s.Addr.(*ssa.FieldAddr); ok {
							if st := derefStruct(fa.X.Type()); st != nil && p.ourField(st.Field(fa.Field)) {
								e.addWrite(st.Field(fa.Field), rootMask(fn, fa))
							}
						}
					}
				} else if ours {
					locs, root := p.instrWrites(in)
					if len(locs) > 0 {
						mask := rootMask(fn, root)
						for _, l := range locs {
							if _, isCell := l.(*ssa.Alloc); isCell {
								continue // the function's own local variable (captured or not)
							}
							if _, isFV := l.(*ssa.FreeVar); isFV {
								e.addWrite(l, heapBit)
								continue
							}
							if _, isAl := root.(*ssa.Alloc); isAl && mask == heapBit {
								// field of a captured struct variable: still the function's own object
								continue
							}
							e.addWrite(l, mask)
						}
					}
					switch in.(type) {
					case *ssa.Go, *ssa.Send, *ssa.Select:
						e.Other = true
					}
					if s, ok := in.(*ssa.Store); ok {
						if g, ok := rootOfAddr(s.Addr).(*ssa.Global); ok {
							e.addWrite(g, heapBit)
						}
					}
				} else {
					// foreign code: only stores to our fields matter (there are none
					// in practice: foreign packages cannot name unexported fields,
					// and exported ones are not written by the stdlib/protobuf).
					if s, ok := in.(*ssa.Store); ok {
						if fa, ok := s.Addr.(*ssa.FieldAddr); ok {
							if st := derefStruct(fa.X.Type()); st != nil && p.ourField(st.Field(fa.Field)) {
								e.addWrite(st.Field(fa.Field), heapBit)
							}
						}
					}
				}
			}
		}
	}
	// relevant reads: loads in the backward slice of results, branch
	// conditions and call arguments. A load that only feeds a store back into
	// memory (a statistics counter) does not influence what the function returns.
	for fn, e := range p.mods {
		if fn.Blocks == nil {
			continue
		}
		pk := fnPkg(fn)
		if pk == nil || !isOurPath(pk.Path()) {
			continue
		}
		for _, l := range p.relevantReads(fn) {
			if _, isAlloc := l.(*ssa.Alloc); isAlloc {
				continue
			}
			e.Reads[l] = true
		}
	}
	// transitive closure (fixpoint) over refined call sites: a call through a
	// function-typed parameter is accounted for at the callers that supply the
	// function (context sensitivity for Visit/scan-style higher-order helpers).
	p.buildParamCalls()
	for changed := true; changed; {
		changed = false
		for fn := range p.CG.Nodes {
			if fn == nil || fn.Blocks == nil {
				continue
			}
			e := p.mods[fn]
			for _, b := range fn.Blocks {
				for _, in := range b.Instrs {
					call, ok := in.(ssa.CallInstruction)
					if !ok {
						continue
					}
					for _, sc := range p.siteCallees(call) {
						ce := p.mods[sc.fn]
						if ce == nil {
							continue
						}
						for l, mask := range ce.WMask {
							if fv, ok := l.(*ssa.FreeVar); ok {
								if fv.Parent() != nil && fv.Parent().Parent() == fn {
									continue
								}
							}
							m2 := heapBit
							if sc.direct {
								m2 = p.translateMask(fn, call, sc.fn, mask)
							} else if mask == 0 {
								m2 = 0
							}
							if e.addWrite(l, m2) {
								changed = true
							}
						}
						for l := range ce.Reads {
							if !e.Reads[l] {
								e.Reads[l] = true
								changed = true
							}
						}
						if ce.Other && !e.Other {
							e.Other = true
							changed = true
						}
					}
				}
			}
		}
	}
}

type siteCallee struct {
	fn     *ssa.Function
	direct bool // called with this site's own arguments (masks translate); false for functions passed as arguments
}

// buildParamCalls computes, per function, which of its function-typed
// parameters it invokes (directly or by passing them on).
func (p *Prog) buildParamCalls() {
	p.paramCalls = map[*ssa.Function]map[int]bool{}
	idxOf := func(fn *ssa.Function, v ssa.Value) int {
		for i, prm := range fn.Params {
			if ssa.Value(prm) == v {
				return i
			}
		}
		return -1
	}
	for fn := range p.CG.Nodes {
		if fn == nil || fn.Blocks == nil {
			continue
		}
		pk := fnPkg(fn)
		if pk == nil || !isOurPath(pk.Path()) {
			continue
		}
		for _, b := range fn.Blocks {
			for _, in := range b.Instrs {
				if call, ok := in.(ssa.CallInstruction); ok && !call.Common().IsInvoke() {
					if i := idxOf(fn, call.Common().Value); i >= 0 {
						if p.paramCalls[fn] == nil {
							p.paramCalls[fn] = map[int]bool{}
						}
						p.paramCalls[fn][i] = true
					}
				}
			}
		}
	}
	for changed := true; changed; {
		changed = false
		for fn := range p.CG.Nodes {
			if fn == nil || fn.Blocks == nil {
				continue
			}
			for _, b := range fn.Blocks {
				for _, in := range b.Instrs {
					call, ok := in.(ssa.CallInstruction)
					if !ok {
						continue
					}
					callee := call.Common().StaticCallee()
					if callee == nil || p.paramCalls[callee] == nil {
						continue
					}
					args := callArgs(call)
					for j := range p.paramCalls[callee] {
						if j < len(args) {
							if i := idxOf(fn, args[j]); i >= 0 {
								if p.paramCalls[fn] == nil {
									p.paramCalls[fn] = map[int]bool{}
								}
								if !p.paramCalls[fn][i] {
									p.paramCalls[fn][i] = true
									changed = true
								}
							}
						}
					}
				}
			}
		}
	}
}

// funcValues resolves a function-typed value to the functions it denotes;
// ok=false if some source is not statically known.
func funcValues(v ssa.Value, depth int) (fns []*ssa.Function, ok bool) {
	if depth > 4 {
		return nil, false
	}
	switch x := v.(type) {
	case *ssa.MakeClosure:
		return []*ssa.Function{x.Fn.(*ssa.Function)}, true
	case *ssa.Function:
		return []*ssa.Function{x}, true
	case *ssa.ChangeType:
		return funcValues(x.X, depth+1)
	case *ssa.Phi:
		for _, e := range x.Edges {
			f, ok := funcValues(e, depth+1)
			if !ok {
				return nil, false
			}
			fns = append(fns, f...)
		}
		return fns, true
	case *ssa.Const:
		return nil, true // nil func
	}
	return nil, false
}

// siteCallees: the functions a call instruction may run, with calls through
// the enclosing function's own parameters deferred to its callers and
// function arguments of higher-order callees attributed to this site.
func (p *Prog) siteCallees(call ssa.CallInstruction) []siteCallee {
	caller := call.Parent()
	cc := call.Common()
	if !cc.IsInvoke() {
		if prm, ok := cc.Value.(*ssa.Parameter); ok && p.paramCalls[caller] != nil {
			for i, q := range caller.Params {
				if q == prm && p.paramCalls[caller][i] && p.allCallersSupply(caller, i) {
					return nil
				}
			}
		}
	}
	var out []siteCallee
	args := callArgs(call)
	for _, callee := range p.Callees(call) {
		out = append(out, siteCallee{callee, true})
		for j := range p.paramCalls[callee] {
			if j >= len(args) {
				continue
			}
			if _, isPrm := args[j].(*ssa.Parameter); isPrm {
				continue // our own caller supplies it
			}
			fns, ok := funcValues(args[j], 0)
			if ok {
				for _, f := range fns {
					out = append(out, siteCallee{f, false})
				}
				continue
			}
			// unknown function value: everything the call graph allows at the callee's parameter-call sites
			for _, b := range callee.Blocks {
				for _, in := range b.Instrs {
					if c2, ok := in.(ssa.CallInstruction); ok && !c2.Common().IsInvoke() && c2.Common().Value == ssa.Value(callee.Params[j]) {
						for _, f := range p.Callees(c2) {
							out = append(out, siteCallee{f, false})
						}
					}
				}
			}
		}
	}
	return out
}

// allCallersSupply: every call site of fn passes a statically known function
// (or its own parameter) for parameter i, so deferring is complete.
func (p *Prog) allCallersSupply(fn *ssa.Function, i int) bool {
	key := [2]any{fn, i}
	if v, ok := p.supplyCache[key]; ok {
		return v
	}
	res := true
	node := p.CG.Nodes[fn]
	if node == nil || len(node.In) == 0 {
		res = false
	} else {
		for _, e := range node.In {
			if e.Site == nil {
				res = false
				break
			}
			if e.Site.Common().StaticCallee() != fn {
				res = false // fn itself is called dynamically
				break
			}
			args := callArgs(e.Site)
			if i >= len(args) {
				res = false
				break
			}
			if _, isPrm := args[i].(*ssa.Parameter); isPrm {
				continue
			}
			if _, ok := funcValues(args[i], 0); !ok {
				res = false
				break
			}
		}
	}
	if p.supplyCache == nil {
		p.supplyCache = map[[2]any]bool{}
	}
	p.supplyCache[key] = res
	return res
}

// translateMask maps a callee's write mask to the caller's frame at a call site.
func (p *Prog) translateMask(caller *ssa.Function, site ssa.CallInstruction, callee *ssa.Function, mask uint64) uint64 {
	out := mask & heapBit
	pm := mask &^ heapBit
	if pm == 0 {
		return out
	}
	if site == nil {
		return heapBit
	}
	args := callArgs(site)
	if site.Common().IsInvoke() || len(args) != len(callee.Params) {
		// dynamic call: closures get their parameters from the callee of the
		// enclosing call (e.g. Visit); align from the right when possible
		if len(site.Common().Args) == len(callee.Params) {
			args = site.Common().Args
		} else {
			return heapBit
		}
	}
	for i := 0; i < len(args) && i < 63; i++ {
		if pm&(uint64(1)<<uint(i)) == 0 {
			continue
		}
		if _, isPtrLike := args[i].Type().Underlying().(*types.Pointer); !isPtrLike {
			// slices/maps passed by value share their backing store
			switch args[i].Type().Underlying().(type) {
			case *types.Slice, *types.Map:
			default:
				out |= heapBit
				continue
			}
		}
		out |= rootMask(caller, args[i])
	}
	return out
}

func allocCaptured(al *ssa.Alloc) bool {
	for _, r := range *al.Referrers() {
		if _, ok := r.(*ssa.MakeClosure); ok {
			return true
		}
	}
	return false
}

// Effects returns the transitive summary of fn.
func (p *Prog) Effects(fn *ssa.Function) *Effects {
	if p.mods == nil {
		p.computeEffects()
	}
	if e := p.mods[fn]; e != nil {
		return e
	}
	return newEffects()
}

// IsPure: calling the function twice with no intervening write to what it
// reads gives the same result: it writes nothing that it (relevantly) reads.
// Writes to unrelated bookkeeping (MemoryStorage call statistics) are allowed;
// such a call still kills facts that depend on what it writes.
func (p *Prog) IsPure(fn *ssa.Function) bool {
	e := p.Effects(fn)
	if e.Other {
		return false
	}
	for l := range e.Writes {
		if e.Reads[l] {
			return false
		}
		if f, ok := l.(*types.Var); ok && e.Reads[derefClass(f.Type())] {
			return false
		}
	}
	// a function that mutates raft state proper is not an accessor, even if its
	// own result does not depend on it
	return !p.writesProtocolState(e)
}

// writesProtocolState: any write outside the MemoryStorage statistics struct.
func (p *Prog) writesProtocolState(e *Effects) bool {
	for l := range e.Writes {
		f, ok := l.(*types.Var)
		if !ok {
			return true
		}
		if !p.isStatsField(f) {
			return true
		}
	}
	return false
}

// isStatsField: field of a struct type that is only ever incremented and never
// read into a result anywhere in the program (discovered, not named): we
// approximate by "no function has it in its relevant reads".
func (p *Prog) isStatsField(f *types.Var) bool {
	if p.statsFields == nil {
		p.statsFields = map[*types.Var]bool{}
		read := map[*types.Var]bool{}
		for _, e := range p.mods {
			for l := range e.Reads {
				if v, ok := l.(*types.Var); ok {
					read[v] = true
				}
			}
		}
		for _, e := range p.mods {
			for l := range e.Writes {
				if v, ok := l.(*types.Var); ok && !read[v] {
					p.statsFields[v] = true
				}
			}
		}
	}
	return p.statsFields[f]
}

// CallWrites returns the locations a call instruction may write, through all
// callees the call graph resolves it to, as masks in the caller's frame.
func (p *Prog) CallWrites(call ssa.CallInstruction) map[Loc]uint64 {
	out := map[Loc]uint64{}
	for _, sc := range p.siteCallees(call) {
		for l, m := range p.Effects(sc.fn).WMask {
			if sc.direct {
				out[l] |= p.translateMask(call.Parent(), call, sc.fn, m)
			} else if m != 0 {
				out[l] |= heapBit
			}
		}
	}
	return out
}

// Callees resolves a call site through the call graph.
func (p *Prog) Callees(call ssa.CallInstruction) []*ssa.Function {
	if c := call.Common().StaticCallee(); c != nil {
		return []*ssa.Function{c}
	}
	node := p.CG.Nodes[call.Parent()]
	if node == nil {
		return nil
	}
	var out []*ssa.Function
	for _, e := range node.Out {
		if e.Site == call {
			out = append(out, e.Callee.Func)
		}
	}
	return out
}

// CallSites returns the call edges into fn (all callers, resolved by VTA).
func (p *Prog) CallSites(fn *ssa.Function) []*callgraph.Edge {
	node := p.CG.Nodes[fn]
	if node == nil {
		return nil
	}
	var out []*callgraph.Edge
	for _, e := range node.In {
		if e.Site == nil {
			continue
		}
		if syn := e.Caller.Func.Synthetic; syn != "" && !strings.Contains(syn, "instance") {
			continue // pointer-receiver wrappers, bound-method thunks
		}
		cp := fnPkg(e.Caller.Func)
		if cp == nil || !isOurPath(cp.Path()) || cp.Path() == pkgPaths["rafttest"] {
			continue
		}
		out = append(out, e)
	}
	return out
}

// symReadLocs: the location classes a symbolic value's heap reads depend on.
func (p *Prog) symReadLocs(s *Sym) map[Loc]bool {
	out := map[Loc]bool{}
	s.Walk(func(x *Sym) {
		for _, ld := range x.Loads {
			switch in := ld.(type) {
			case *ssa.Call:
				for _, callee := range p.Callees(in) {
					for l := range p.Effects(callee).Reads {
						out[l] = true
					}
				}
			default:
				for _, l := range p.instrReads(ld) {
					out[l] = true
				}
			}
		}
	})
	return out
}

// symLocsStructural: locations implied by the structure of a symbol (used
// when a symbol was built by substitution and carries no load instructions).
func (p *Prog) symLocsStructural(s *Sym) map[Loc]bool {
	out := map[Loc]bool{}
	s.Walk(func(x *Sym) {
		switch x.K {
		case KField:
			// value-struct field extraction needs no load, but we cannot tell here; be conservative
			if p.ourField(x.Fld) {
				out[x.Fld] = true
			}
		case KIndex:
			if x.Args[0].Typ != nil {
				out[elemClass(x.Args[0].Typ)] = true
			}
		case KCall:
			if x.Fn != nil {
				for l := range p.Effects(x.Fn).Reads {
					out[l] = true
				}
			}
		}
	})
	return out
}

// Killed reports whether any instruction in `between` may write a location in
// locs; it returns the first such instruction.
func (p *Prog) Killed(between []ssa.Instruction, locs map[Loc]bool, symRoots map[ssa.Value]bool) ssa.Instruction {
	if len(locs) == 0 {
		return nil
	}
	for _, in := range between {
		switch x := in.(type) {
		case *ssa.Store, *ssa.MapUpdate:
			wl, root := p.instrWrites(in)
			if al, ok := root.(*ssa.Alloc); ok && !symRoots[al] {
				// a store into a fresh local object cannot change a value read
				// through another path, unless the symbol is rooted in that object
				if !allocCaptured(al) {
					continue
				}
			}
			switch root.(type) {
			case *ssa.MakeSlice, *ssa.MakeMap:
				if !symRoots[root] {
					continue
				}
			case *ssa.UnOp, *ssa.TypeAssert, *ssa.ChangeType, *ssa.Call:
				if isFreshValue(root, 0) {
					continue
				}
			}
			for _, l := range wl {
				if locs[l] {
					return in
				}
			}
		case ssa.CallInstruction:
			if _, isGo := in.(*ssa.Go); isGo {
				continue
			}
			if _, isB := x.Common().Value.(*ssa.Builtin); isB {
				continue
			}
			for l, m := range p.CallWrites(x) {
				if m == 0 {
					continue
				}
				if locs[l] {
					if os.Getenv("RAFTLINT_DEBUGKILL") != "" {
						fmt.Fprintf(os.Stderr, "KILL %v by call at %s\n", l, p.InstrPos(in))
					}
					return in
				}
				if fv, ok := l.(*ssa.FreeVar); ok {
					if al := bindingOf(fv); al != nil && locs[al] {
						return in
					}
				}
			}
		}
	}
	return nil
}

// relevantReads computes the location classes read by loads that can
// influence a return value, a branch, a call argument or an index.
func (p *Prog) relevantReads(fn *ssa.Function) []Loc {
	seen := map[ssa.Value]bool{}
	var work []ssa.Value
	push := func(v ssa.Value) {
		if v != nil && !seen[v] {
			seen[v] = true
			work = append(work, v)
		}
	}
	for _, b := range fn.Blocks {
		for _, in := range b.Instrs {
			switch x := in.(type) {
			case *ssa.Return:
				for _, r := range x.Results {
					push(r)
				}
			case *ssa.If:
				push(x.Cond)
			case *ssa.Panic:
				push(x.X)
			case ssa.CallInstruction:
				cc := x.Common()
				push(cc.Value)
				for _, a := range cc.Args {
					push(a)
				}
			case *ssa.Store:
				// the address computation (which object) is relevant, the value is not
				push(x.Addr)
			case *ssa.MapUpdate:
				push(x.Map)
				push(x.Key)
			}
		}
	}
	var out []Loc
	for len(work) > 0 {
		v := work[len(work)-1]
		work = work[:len(work)-1]
		in, ok := v.(ssa.Instruction)
		if !ok {
			continue
		}
		out = append(out, p.instrReads(in)...)
		var ops []*ssa.Value
		for _, op := range in.Operands(ops) {
			push(*op)
		}
	}
	return out
}

// isFreshValue: the value is an object created by this function (so writes
// through it cannot be observed through any pre-existing path): allocations,
// make, proto.Clone results, and elements loaded back from a fresh container
// into which only fresh values were stored.
func isFreshValue(v ssa.Value, depth int) bool {
	if depth > 4 {
		return false
	}
	switch x := v.(type) {
	case *ssa.Alloc:
		return !allocCaptured(x)
	case *ssa.MakeSlice, *ssa.MakeMap:
		return true
	case *ssa.Call:
		if callee := x.Common().StaticCallee(); callee != nil && callee.Pkg != nil &&
			callee.Pkg.Pkg.Path() == "google.golang.org/protobuf/proto" && callee.Name() == "Clone" {
			return true
		}
		return false
	case *ssa.TypeAssert:
		return isFreshValue(x.X, depth+1)
	case *ssa.ChangeType:
		return isFreshValue(x.X, depth+1)
	case *ssa.UnOp:
		if x.Op != token.MUL {
			return false
		}
		ia, ok := x.X.(*ssa.IndexAddr)
		if !ok {
			return false
		}
		cont := ia.X
		if _, ok := cont.(*ssa.MakeSlice); !ok {
			return false
		}
		// every element store into the container stores a fresh value
		for _, ref := range *cont.Referrers() {
			ia2, ok := ref.(*ssa.IndexAddr)
			if !ok {
				continue
			}
			for _, r2 := range *ia2.Referrers() {
				if st, ok := r2.(*ssa.Store); ok && st.Addr == ia2 {
					if !isFreshValue(st.Val, depth+1) {
						return false
					}
				}
			}
		}
		return true
	}
	return false
}

// addrTaken: fields whose address escapes (is used other than as the direct
// operand of a load, store or further field/index selection).
func (p *Prog) addrTaken() map[*types.Var]bool {
	if p.addrTakenFields != nil {
		return p.addrTakenFields
	}
	m := map[*types.Var]bool{}
	for _, fn := range p.Funcs {
		for _, b := range fn.Blocks {
			for _, in := range b.Instrs {
				fa, ok := in.(*ssa.FieldAddr)
				if !ok {
					continue
				}
				st := derefStruct(fa.X.Type())
				if st == nil {
					continue
				}
				for _, ref := range *fa.Referrers() {
					switch r := ref.(type) {
					case *ssa.UnOp, *ssa.FieldAddr, *ssa.IndexAddr, *ssa.DebugRef:
					case *ssa.Store:
						if r.Val == fa {
							m[st.Field(fa.Field)] = true
						}
					default:
						m[st.Field(fa.Field)] = true
					}
				}
			}
		}
	}
	p.addrTakenFields = m
	return m
}

// bindingOf returns the variable cell a closure's free variable is bound to.
func bindingOf(fv *ssa.FreeVar) ssa.Value {
	cl := fv.Parent()
	if cl == nil || cl.Parent() == nil {
		return nil
	}
	idx := -1
	for i, v := range cl.FreeVars {
		if v == fv {
			idx = i
		}
	}
	for _, b := range cl.Parent().Blocks {
		for _, in := range b.Instrs {
			if mc, ok := in.(*ssa.MakeClosure); ok && mc.Fn == cl && idx >= 0 && idx < len(mc.Bindings) {
				return mc.Bindings[idx]
			}
		}
	}
	return nil
}
