package main

import (
	"fmt"
	"go/token"
	"path/filepath"
	"sort"
	"strings"

	"golang.org/x/tools/go/callgraph/cha"
	"golang.org/x/tools/go/callgraph/vta"
	"golang.org/x/tools/go/packages"
	"golang.org/x/tools/go/ssa"
	"golang.org/x/tools/go/ssa/ssautil"
)

// loadFixtures builds a Prog for the self-contained control package.
func loadFixtures(dir string) (*Prog, error) {
	fset := token.NewFileSet()
	cfg := &packages.Config{Mode: packages.LoadAllSyntax, Dir: dir, Fset: fset, Env: goEnv(Variant{})}
	pkgs, err := packages.Load(cfg, "./...")
	if err != nil {
		return nil, err
	}
	if len(pkgs) != 1 || len(pkgs[0].Errors) > 0 {
		return nil, fmt.Errorf("fixture package failed to load: %v", pkgs[0].Errors)
	}
	p := &Prog{Variant: Variant{Name: "fixtures"}, Dir: dir, Fset: fset, Pkgs: map[string]*packages.Package{"fx": pkgs[0]}, SPkgs: map[string]*ssa.Package{}, finfo: map[*ssa.Function]*FuncInfo{}}
	prog, _ := ssautil.AllPackages(pkgs, ssa.InstantiateGenerics)
	prog.Build()
	p.SSA = prog
	all := ssautil.AllFunctions(prog)
	p.CG = vta.CallGraph(all, cha.CallGraph(prog))
	for fn := range all {
		if fn.Blocks == nil || fn.Synthetic != "" {
			continue
		}
		if pk := fnPkg(fn); pk != nil && pk.Path() == "fixtures" {
			p.Funcs = append(p.Funcs, fn)
			p.RuleFuncs = append(p.RuleFuncs, fn)
		}
	}
	sortFuncs(p.Funcs)
	sortFuncs(p.RuleFuncs)
	return p, nil
}

// runFixtures: the analyser's own positive/negative controls. A primitive
// that accepts a bad_* control or rejects a good_* one fails the run.
func runFixtures(prop string) (fails []string, log []string) {
	dir := filepath.Join(verifDir(), "checker", "fixtures", "engine")
	saved := curProg
	defer func() { curProg = saved }()
	p, err := loadFixtures(dir)
	if err != nil {
		return []string{"fixtures: " + err.Error()}, nil
	}
	curProg = p
	defer func() {
		if r := recover(); r != nil {
			fails = append(fails, fmt.Sprintf("fixtures: analyser panic: %v", r))
		}
	}()
	check := func(name string, got bool) {
		want := strings.HasPrefix(name, "good_")
		st := "ok"
		if got != want {
			st = "WRONG"
			fails = append(fails, fmt.Sprintf("fixture %s: analyser said %v, expected %v", name, got, want))
		}
		log = append(log, fmt.Sprintf("%s: accepted=%v (%s)", name, got, st))
	}
	base := func(fn *ssa.Function) string {
		n := fn.Name()
		return n
	}
	// guarded stores
	var committed, found = (*ssa.Function)(nil), 0
	_ = committed
	for _, fn := range p.RuleFuncs {
		n := base(fn)
		if !strings.Contains(n, "_store_") {
			continue
		}
		fi := p.Info(fn)
		for _, in := range p.liveInstrsOf(fn) {
			st, ok := in.(*ssa.Store)
			if !ok {
				continue
			}
			fa, ok := st.Addr.(*ssa.FieldAddr)
			if !ok || derefStruct(fa.X.Type()).Field(fa.Field).Name() != "committed" {
				continue
			}
			found++
			fld := derefStruct(fa.X.Type()).Field(fa.Field)
			recv := derefLoc(fi.Sym(fa.X))
			pr := p.Prove(fi, st, []Req{ReqCmp(fi.Sym(st.Val), ">=", FieldOf(recv, fld))})
			check(n, pr.OK)
		}
		if strings.HasSuffix(n, "_lifted") {
			// the store is in lifted_callee: prove there, lifting to this caller
			for _, callee := range p.RuleFuncs {
				if callee.Name() != "lifted_callee" {
					continue
				}
				cfi := p.Info(callee)
				for _, in := range p.liveInstrsOf(callee) {
					if st, ok := in.(*ssa.Store); ok {
						fa := st.Addr.(*ssa.FieldAddr)
						fld := derefStruct(fa.X.Type()).Field(fa.Field)
						pr := p.Prove(cfi, st, []Req{ReqCmp(cfi.Sym(st.Val), ">=", FieldOf(derefLoc(cfi.Sym(fa.X)), fld))})
						check(n, pr.OK)
						found++
					}
				}
			}
		}
	}
	// formulas: equal to a || (b && c)
	for _, fn := range p.RuleFuncs {
		n := base(fn)
		if !strings.HasSuffix(n, "_formula") {
			continue
		}
		fi := p.Info(fn)
		a, b, c := bfSym(fi.Sym(fn.Params[0])), bfSym(fi.Sym(fn.Params[1])), bfSym(fi.Sym(fn.Params[2]))
		spec := bfOr(a, bfAnd(b, c))
		for _, ret := range returnsOf(fi) {
			code := fi.valueBF(fi.RetVal(ret, 0), 0)
			ok, _ := bfEquiv(code, spec)
			check(n, ok)
			found++
		}
	}
	// map ranges
	R := map[*ssa.Function]bool{}
	for _, fn := range p.RuleFuncs {
		if strings.Contains(fn.Name(), "_range_") {
			R[fn] = true
		}
	}
	cc := NewCheck(p, "fixtures")
	c19MapRanges(cc, R)
	seen := map[string]bool{}
	for _, o := range cc.Obs {
		i := strings.LastIndex(o.Func, ".")
		n := o.Func[i+1:]
		seen[n] = true
		check(n, o.Status == StDischarged)
		found++
	}
	for fn := range R {
		if !seen[fn.Name()] {
			fails = append(fails, "fixture "+fn.Name()+": no map range found")
		}
	}
	if found < 15 {
		fails = append(fails, fmt.Sprintf("fixtures: only %d controls evaluated", found))
	}
	sort.Strings(log)
	return fails, log
}
