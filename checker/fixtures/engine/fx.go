// Package fx holds positive and negative controls for the analyser's
// primitives (DESIGN §3.3). It is loaded and analysed on every run; it is not
// part of raft and is never executed. Function names carry the expectation:
// good_* must be accepted, bad_* must be rejected by the named primitive.
package fx

import "slices"

type L struct {
	committed uint64
	last      uint64
	paused    bool
	ents      []uint64
}

// ---- guarded store: new >= old ----

func (l *L) good_store_dom(to uint64) {
	if l.committed < to {
		l.committed = to
	}
}

func (l *L) good_store_exit(to uint64) {
	if to < l.committed {
		panic("regress")
	}
	l.committed = to
}

func (l *L) good_store_return(to uint64) bool {
	if to <= l.committed {
		return false
	}
	l.committed = to
	return true
}

func (l *L) bad_store_unguarded(to uint64) {
	l.committed = to
}

func (l *L) bad_store_wrong_op(to uint64) {
	if l.committed != to {
		l.committed = to
	}
}

func (l *L) bump() { l.committed += 2 }

func (l *L) bad_store_killed(to uint64) {
	if l.committed < to {
		l.bump() // may raise committed above `to`
		l.committed = to
	}
}

func (l *L) lifted_callee(to uint64) { l.committed = to }

func (l *L) good_store_lifted(to uint64) {
	if l.committed < to {
		l.lifted_callee(to)
	}
}

// ---- boolean formulas ----

func good_formula(a, b, c bool) bool { return a || b && c }

func bad_formula(a, b, c bool) bool { return a || b || c }

// ---- map ranges ----

func good_range_sorted(m map[uint64]bool) []uint64 {
	var out []uint64
	for k := range m {
		out = append(out, k)
	}
	slices.Sort(out)
	return out
}

func good_range_count(m map[uint64]bool) int {
	n := 0
	for _, v := range m {
		if v {
			n++
		}
	}
	return n
}

func good_range_insert(m map[uint64]bool) map[uint64]struct{} {
	o := map[uint64]struct{}{}
	for k := range m {
		o[k] = struct{}{}
	}
	return o
}

func bad_range_unsorted(m map[uint64]bool) []uint64 {
	var out []uint64
	for k := range m {
		out = append(out, k)
	}
	return out
}

func bad_range_last(m map[uint64]bool) uint64 {
	var last uint64
	for k := range m {
		last = k
	}
	return last
}

func bad_range_first(m map[uint64]bool) uint64 {
	for k := range m {
		return k
	}
	return 0
}

var sink []uint64

func bad_range_effect(m map[uint64]bool) {
	for k := range m {
		sink = append(sink, k)
	}
}
