module fixtures

go 1.26
