#!/bin/sh
# Builds /verif/bin/raftlint from /verif/checker, offline, with go1.26.8 and x/tools v0.50.0.
set -e
cd "$(dirname "$0")/checker"
export PATH=/opt/veriftools/go1.26.8/bin:$PATH
export GOTOOLCHAIN=local GOFLAGS=-mod=mod GOPROXY=off GOSUMDB=off
unset GOWORK
mkdir -p ../bin ../evidence ../reports
go build -o ../bin/raftlint ./cmd/raftlint
